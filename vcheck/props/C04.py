"""C04 - update mode converges and rewrites only what differs."""
import core, suites, findings
from core import World, parse_fs, Line
from gen import Gen, mode_line
from suites import gen_history, emit_exec, exp_silent, exp_same_fs, run_suite, parse_snap, parse_snap_scan, esc, snap_file_suffix, mutate_call

LEAN_MODULES = ['GoSnaps.Props.C04', 'GoSnaps.Props.C04World', 'GoSnaps.Props.Tie.Escape', 'GoSnaps.Props.Tie.SnapshotIO', 'GoSnaps.Props.Tie.Flows', 'GoSnaps.Props.Tie.EndToEnd', 'GoSnaps.Props.Tie.DifflibGen', 'GoSnaps.Props.Tie.DifflibGen2', 'GoSnaps.Props.Tie.DifflibGen3', 'GoSnaps.Props.C13Difflib', 'GoSnaps.Props.C13', 'GoSnaps.Props.Tie.Wrappers']
UPD_MODES = [(False, 'true', 'none'), (False, '', 'true'), (False, 'other', 'true'), (False, 'clean', 'true')]


def make_spec(g, allow):
    r = g.r
    h = gen_history(g, allow + ('many',), max_tests=4, max_calls=6)
    changed = {}
    for ei, (name, calls) in enumerate(h.execs):
        for k, (cfgno, c) in enumerate(calls):
            if r.random() < 0.35:
                m, tag = mutate_call(g, c)
                if m is not None:
                    changed[(ei, k)] = m
    spec = dict(cfgs=h.cfgs, execs=h.execs, flags=set(h.flags), changed=changed, mode=r.choice(UPD_MODES))
    # the recorded files as a checkout with core.autocrlf leaves them: the update still finds and
    # replaces exactly the changed entries (entries compared as the line scanner sees them)
    spec['crlf'] = r.choice(suites.CRLF_MODES) if r.random() < 0.12 and 'cr' not in spec['flags'] and 'big' not in allow else None
    if spec['crlf']:
        spec['flags'].add('crlf-file')
    spec['edit'] = None if spec['crlf'] else suites.edit_choice(r, h.execs)
    return spec


def render(tag, spec):
    w = World(tag)
    w.spec, w.render = spec, render
    w.flags |= spec['flags']
    w.add(mode_line(False, ''))
    for c in spec['cfgs']:
        w.add(c)
    texec = 0
    rec = {}
    for ei, (name, calls) in enumerate(spec['execs']):
        texec += 1
        rec[ei] = emit_exec(w, texec, name, calls)
    if spec.get('edit'):
        w.add('fsedit ' + spec['edit'])
    if spec.get('crlf'):
        for op in suites.crlf_ops(spec['cfgs'], spec['crlf']):
            w.add(op)
    parse = parse_snap_scan if spec.get('crlf') else (suites.parse_snap_edited if spec.get('edit') else parse_snap)
    ref = w.add('fsdump')
    ci, upd, cfgupd = spec['mode']
    w.add('reset')
    w.add(mode_line(ci, upd))
    if cfgupd != 'none':
        for c in spec['cfgs']:
            t = c.split()
            t[5] = cfgupd
            w.add(' '.join(t))
    # key the changed calls by identity of the original call objects so that shrinking keeps them aligned
    changed = {}
    for (ei, k), m in spec['changed'].items():
        if ei < len(spec['execs_orig'] if 'execs_orig' in spec else spec['execs']):
            changed[(ei, k)] = m
    newcalls = {}
    upd_idx = []
    for ei, (name, calls) in enumerate(spec['execs']):
        texec += 1
        w.add('begin %d %s' % (texec, core.hx(name)))
        for k, (cfgno, c) in enumerate(calls):
            m = spec['changed'].get(c.uid) if hasattr(c, 'uid') else None
            ri = rec[ei][k]
            if m is not None:
                def exp(line, raw, ww, ri=ri):
                    r0 = Line(ww.impl[ri])
                    if [k for k, _ in r0.events] != ['L']:
                        return None
                    if [k for k, _ in line.events] != ['L'] or not line.events[0][1].endswith(b'updated'):
                        return 'a changed value in update mode must give exactly one `updated` log, got %r' % [(k, v[:40]) for k, v in line.events]
                    if len(line.writes) != 1 or line.removed:
                        return 'exactly the addressed file must be written, got w=%r d=%r' % (line.writes, line.removed)
                    return None
                upd_idx.append(w.add(m.op(cfgno, texec), ('changed-entry-updated', exp)))
                newcalls[(ei, k)] = m
            else:
                def exp2(line, raw, ww, ri=ri):
                    r0 = Line(ww.impl[ri])
                    if [k for k, _ in r0.events] != ['L']:
                        return None
                    return exp_silent(line, raw, ww)
                w.add(c.op(cfgno, texec), ('unchanged-entry-not-written', exp2))
                newcalls[(ei, k)] = c
        w.add('end %d' % texec)

    def exp_entries(line, raw, ww):
        # every multi-entry file: same ids in the same order; bodies equal except at updated slots
        a, b = parse_fs(ww.impl[ref]), parse_fs(raw)
        if set(a) != set(b):
            return 'set of files changed: %r' % (set(a) ^ set(b))
        for p in a:
            if b'_%d' in p:
                continue
            if p.endswith((b'.snap', b'.snap.txt', b'.snap.yaml')) and not any(ch.isdigit() for ch in p.rsplit(b'/', 1)[1].split(b'.snap')[0][-2:].decode('latin1')):
                ea, eb = parse(a[p]), parse(b[p])
                if ea is None or eb is None:
                    return 'file %r is not well formed' % p
                if [x[0] for x in ea] != [x[0] for x in eb]:
                    return 'ids or their order changed in %r' % p
        return None
    after = w.add('fsdump', ('entries-in-place', exp_entries))
    # an immediately following read-only run passes completely and writes nothing
    w.add('reset')
    w.add(mode_line(True, ''))
    for ei, (name, calls) in enumerate(spec['execs']):
        texec += 1
        w.add('begin %d %s' % (texec, core.hx(name)))
        for k, (cfgno, c) in enumerate(calls):
            ri = rec[ei][k]

            def exp3(line, raw, ww, ri=ri):
                r0 = Line(ww.impl[ri])
                if [k for k, _ in r0.events] != ['L']:
                    return None
                return exp_silent(line, raw, ww)
            w.add(newcalls[(ei, k)].op(cfgno, texec), ('readonly-run-after-update-passes', exp3))
        w.add('end %d' % texec)
    w.add('fsdump', ('directory-unchanged-by-readonly-run', exp_same_fs(after)))
    return w


def fixed_worlds(ctx):
    """deterministic boundary cases: one entry is updated while ANOTHER entry of the same file holds a
    single line of exactly / just below / just above 4096 and 65536 bytes (before and after the
    updated entry); new values that are templates for regexp.Expand ($1, $name, ${name}); files with
    CR LF line endings"""
    from gen import Call, cfg_line, MIDLINE
    worlds = []

    def mk(tag, execs, changed, mode=UPD_MODES[0], crlf=None):
        for ei, (name, calls) in enumerate(execs):
            for k, (cfgno, c) in enumerate(calls):
                c.uid = (ei, k)
        return render(tag, dict(cfgs=[cfg_line(1, 'snaps')], execs=execs, flags=set(), changed=changed, mode=mode, crlf=crlf))
    sizes = [4095, 4096, 4097, 8192, 65536] + ([65535, 65537, 131072, 70000] if ctx.tier == 'thorough' else [])
    for n in sizes:
        for order in (0, 1):
            long_ = (b'TestLongLine', [(1, Call('snap', b'head\n' + MIDLINE(n) + b'\ntail')), (1, Call('snap', MIDLINE(n)))])
            small = (b'TestSmall', [(1, Call('snap', b'old value')), (1, Call('snap', b'stays'))])
            execs = [long_, small] if order == 0 else [small, long_]
            worlds.append(mk('c04-longline-%d-%d' % (n, order), execs, {(1 - order, 0): Call('snap', b'new value\nlonger')}, UPD_MODES[(n + order) % len(UPD_MODES)]))
    tmpl = [b'DATA_DIR: ${HOME}/data', b'PATH=$PATH:/bin', b'price: $10 per unit', b'$1$2', b'a$b$', b'$$', b'${', b'\\1 $0 $&', b'50% of $x']
    execs = [(b'TestTemplate', [(1, Call('snap', b'old %d' % i)) for i in range(len(tmpl))]), (b'TestOther', [(1, Call('snap', b'$keep ${this} $1'))])]
    worlds.append(mk('c04-template-values', execs, {(0, i): Call('snap', t + b'\nsecond $line') for i, t in enumerate(tmpl)}))
    execs = [(b'TestTemplateY', [(1, Call('yaml', b'v: %d\n' % i, 's')) for i in range(3)] + [(1, Call('json', b'{"v": 1}', 's'))])]
    worlds.append(mk('c04-template-docs', execs, {(0, 0): Call('yaml', b'DATA_DIR: ${HOME}/data\nprice: $10\n', 's'), (0, 1): Call('yaml', b'a: $1\n---\nb: $PATH\n', 'b'),
                                                  (0, 3): Call('json', b'{"v": "$1 ${name} $name"}', 's')}))
    # the new value differs from the stored one ONLY in a line that a coarser-than-bytes comparison (32-bit hash,
    # prefix, length, case folding, ...) takes for the same: it differs, so the updating run rewrites it
    import collide, random
    rr = random.Random(4)
    docs = [d for d in collide.deterministic_documents(rr, per_class=1, sizes=(1, 12)) if not any(l.endswith(b'\r') for l in (d[1] + b'\n' + d[2]).split(b'\n'))]
    for i in range(0, len(docs), 6):
        chunk = docs[i:i + 6]
        execs = [(b'TestTwin%d' % (i // 6), [(1, Call('snap', ta)) for _, ta, _ in chunk])]
        worlds.append(mk('c04-twin-lines-%d' % (i // 6), execs, {(0, k): Call('snap', tb) for k, (_, _, tb) in enumerate(chunk)}, UPD_MODES[(i // 6) % len(UPD_MODES)]))
    for mode in ('all', 'odd', 'even'):
        execs = [(b'TestA', [(1, Call('snap', b'a one')), (1, Call('snap', b'a\ntwo\n'))]), (b'TestB', [(1, Call('snap', b'b one')), (1, Call('snap', b'---\nb two'))])]
        worlds.append(mk('c04-crlf-%s' % mode, execs, {(0, 1): Call('snap', b'a\nTWO\nlonger\n'), (1, 0): Call('snap', b'')}, UPD_MODES[1], crlf=mode))
    return worlds


def known(w, p):
    if p['kind'] != 'expect':
        return None
    if 'shadow' in w.flags:
        return 'D9'
    if 'cr' in w.flags:
        return 'SKIP:carriage return at end of line (documented limitation)'
    return None


def pinned_worlds():
    """an updating run (UPDATE_SNAPS=true) with one Config pinned by snaps.Update(false): through that Config a
    changed value is reported and nothing is rewritten; the other Config of the same run updates as usual"""
    from gen import cfg_line
    from core import hx
    worlds = []
    for i, kind in enumerate(['snap', 'json', 'yaml', 'sasnap', 'sajson']):
        val = {'snap': (b'old value', b'new value'), 'sasnap': (b'old value', b'new value'), 'json': (b's {"a":1}', b's {"a":2}'),
               'sajson': (b's {"a":1}', b's {"a":2}'), 'yaml': (b's a: 1\n', b's a: 2\n')}[kind]

        def opline(cfg, t, v):
            if kind in ('snap', 'sasnap'):
                return '%s %d %d %s' % (kind, cfg, t, hx(v))
            form, doc = v.split(b' ', 1)
            return '%s %d %d %s %s' % (kind, cfg, t, form.decode(), hx(doc))
        w = World('c04-pinned-%s' % kind)
        w.add(mode_line(False, ''))
        w.add(cfg_line(1, 'pinned'))
        w.add(cfg_line(2, 'free'))
        for t, cfg in ((1, 1), (2, 2)):
            w.add('begin %d %s' % (t, hx(b'TestPin')))
            w.add(opline(cfg, t, val[0]))
            w.add('end %d' % t)
        w.add('reset')
        w.add(mode_line(False, 'true'))
        w.add(cfg_line(1, 'pinned', None, None, 'false'))
        w.add('begin 3 %s' % hx(b'TestPin'))
        w.add(opline(1, 3, val[1]), ('pinned-config-reports-and-does-not-rewrite', suites.exp_one_error_no_write))
        w.add('end 3')

        def exp_upd(line, raw, ww):
            if [k for k, _ in line.events] != ['L'] or not line.events[0][1].endswith(b'updated') or len(line.writes) != 1:
                return 'the unpinned Config must update: %r w=%r' % ([(k, v[:30]) for k, v in line.events], line.writes)
            return None
        w.add('begin 4 %s' % hx(b'TestPin'))
        w.add(opline(2, 4, val[1]), ('unpinned-config-updates', exp_upd))
        w.add('end 4')
        worlds.append(w)
    return worlds


def standalone_crlf_worlds():
    """a standalone value with CR LF (or mixed) line endings: recorded once, an updating run with the SAME value passes
    silently and writes nothing (update converges), and so does the read-only run after it"""
    from gen import cfg_line
    from core import hx
    worlds = []
    for i, v in enumerate([b'line one\r\nline two\r\n', b'a\r\nb', b'only\r\n', b'mixed\nand\r\nendings', b'\r\n']):
        w = World('c04-sacrlf-%d' % i)
        w.add(mode_line(False, ''))
        w.add(cfg_line(1, 'snaps'))
        w.add('begin 1 %s' % hx(b'TestCRLF'))
        w.add('sasnap 1 1 %s' % hx(v))
        w.add('end 1')
        for t, (ci, upd) in enumerate([(False, 'true'), (False, 'true'), (True, '')], 2):
            w.add(mode_line(ci, upd))
            w.add('begin %d %s' % (t, hx(b'TestCRLF')))
            w.add('sasnap 1 %d %s' % (t, hx(v)), ('unchanged-crlf-value-passes-and-writes-nothing', suites.exp_silent))
            w.add('end %d' % t)
        worlds.append(w)
    return worlds


def run(ctx):
    g = Gen(ctx.seed * 1000003 + 4)
    n = 150 if ctx.tier == 'quick' else 4000
    worlds = []
    for i in range(n):
        k = g.r.random()
        # `mid`: single lines around 4096 / 8192 bytes (the buffer sizes of bufio.Reader and of the
        # scanner's first window) in entries NEXT TO the ones that are updated
        spec = make_spec(g, ('shadow',) if k < 0.06 else (('big',) if k < 0.11 else (('mid',) if k < 0.21 else ())))
        # give every call an identity that survives structural shrinking
        ch = {}
        for ei, (name, calls) in enumerate(spec['execs']):
            for k, (cfgno, c) in enumerate(calls):
                c.uid = (ei, k)
        spec['changed'] = {key: m for key, m in spec['changed'].items()}
        worlds.append(render('c04-%d' % i, spec))
    worlds += fixed_worlds(ctx)
    worlds += pinned_worlds()
    worlds += standalone_crlf_worlds()
    run_suite(ctx, 'match.update', worlds, known=known, chunk=200)
    findings.report(ctx, 'C04')
