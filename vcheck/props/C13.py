"""C13 - the failure report is empty only for identical text and shows the true edit."""
import itertools, random, re
import core, suites, findings, collide
from core import World, Line, hx
from gen import Gen
from suites import run_suite

LEAN_MODULES = ['GoSnaps.Props.C13Difflib', 'GoSnaps.Props.C13', 'GoSnaps.Props.Tie.Diff', 'GoSnaps.Props.Tie.Range', 'GoSnaps.Props.Tie.Flows', 'GoSnaps.Props.Tie.DiffIO', 'GoSnaps.Props.Tie.SingleLine', 'GoSnaps.Props.Tie.SingleLineC02', 'GoSnaps.Props.Tie.DifflibGen', 'GoSnaps.Props.Tie.DifflibGen2', 'GoSnaps.Props.Tie.DifflibGen3']


def parse_ops(s):
    if not s:
        return []
    return [[tuple(int(x) for x in c.split(':')) for c in g.split(',')] for g in s.split(';')]


def check_opcodes(a, b, full, groups):
    """the four checkable properties, evaluated on the real output"""
    ops = [c for g in full for c in g]
    if a == b:
        if ops or groups:
            return 'identical sequences produced opcodes/groups'
        return None
    if not ops:
        return 'different sequences produced no opcodes'
    i, j = 0, 0
    out = []
    for tag, i1, i2, j1, j2 in ops:
        if (i1, j1) != (i, j) or i2 < i1 or j2 < j1:
            return 'opcodes do not tile contiguously at %r' % ((tag, i1, i2, j1, j2),)
        if tag == 0:
            if a[i1:i2] != b[j1:j2] or i2 == i1:
                return 'Equal opcode over non-identical ranges'
            out += a[i1:i2]
        elif tag == 1:
            if i1 != i2 or j1 == j2:
                return 'malformed Insert'
            out += b[j1:j2]
        elif tag == 2:
            if j1 != j2 or i1 == i2:
                return 'malformed Delete'
        elif tag == 3:
            if i1 == i2 or j1 == j2:
                return 'malformed Replace'
            out += b[j1:j2]
        else:
            return 'unknown tag'
        i, j = i2, j2
    if (i, j) != (len(a), len(b)):
        return 'opcodes do not reach the end of both sequences'
    if out != b:
        return 'replaying the opcodes over a does not give b'
    changes = [c for c in ops if c[0] != 0]
    gchanges = [c for g in groups for c in g if c[0] != 0]
    if gchanges != changes:
        return 'hunks omit or alter a changed range: %r vs %r' % (gchanges, changes)
    for g in groups:
        for c in g:
            if c[0] == 0 and not any(o[0] == 0 and o[1] <= c[1] <= c[2] <= o[2] and c[3] - c[1] == o[3] - o[1] for o in ops):
                return 'a context range of a hunk is not part of an Equal opcode'
    return None


ALPHABET = [chr(c) for c in list(range(48, 58)) + list(range(65, 91)) + list(range(97, 123)) + list(range(0x100, 0x17f)) + list(range(0x400, 0x4ff))]


def difflib_suite(ctx, binary, name, pairs, lines=False):
    """lines=False: a, b are strings, one element per letter.  lines=True: a, b are lists of whole
    lines (byte strings) given to the real package as they are; the difflib algorithm only ever asks
    whether two elements are EQUAL, so the model is asked about the same sequences with every distinct
    line renamed to a distinct letter - an implementation that compares lines by anything coarser
    than their bytes (a hash, a prefix, a folded form) disagrees with it."""
    if lines:
        enc = lambda x: ','.join((l.hex() or '~') for l in x) if x else '-'
        ops = ['dll %s %s' % (enc(a), enc(b)) for a, b in pairs]
        mops = []
        for a, b in pairs:
            ren = {}
            for l in list(a) + list(b):
                ren.setdefault(l, ALPHABET[len(ren)])
            mops.append('dl %s %s' % (''.join(ren[l] for l in a) or '-', ''.join(ren[l] for l in b) or '-'))
    else:
        ops = ['dl %s %s' % (a or '-', b or '-') for a, b in pairs]
        mops = ops
    rc, impl, tail = core.run_raw(ctx, binary, 'TestVerifDifflib', ops)
    st = ctx.stats['suites'].setdefault(name, dict(pairs=0, corr_mismatch=0, oracle_fail=0))
    st['pairs'] += len(pairs)
    ctx.stats['evaluations'] += len(pairs)
    if rc != 0 or len(impl) != len(ops):
        ctx.add_obl('B.corr ' + name, False, 'difflib harness exit %s, %d lines for %d ops\n%s' % (rc, len(impl), len(ops), tail))
        return
    model = None
    if ctx.model:
        mrc, model = core.run_model(ctx, '\n'.join(mops) + '\n')
        if mrc != 0 or len(model) != len(ops):
            ctx.add_obl('B.corr ' + name, False, 'model driver failed on the difflib ops')
            model = None
    bad_corr = None
    for k, (a, b) in enumerate(pairs):
        m = re.match(r'dl full=(\S*) groups=(\S*)$', impl[k])
        if not m:
            ctx.add_obl('B.corr ' + name, False, 'unparsable line ' + impl[k][:100])
            return
        if a != b or True:
            ctx.stats['nontrivial'].add(impl[k][:200] + ops[k][:120])
        msg = check_opcodes(list(a), list(b), parse_ops(m.group(1)), parse_ops(m.group(2)))
        if msg and len(ctx.violations) < 5:
            st['oracle_fail'] += 1
            path = core.write_replay(ctx, 'difflib oracle failed: ' + msg, [ops[k]], 'impl: ' + impl[k][:500], None, dict(kind='difflib'))
            ctx.violations.append(('difflib ' + msg, path, True))
        if model is not None and model[k] != impl[k] and bad_corr is None:
            bad_corr = k
            st['corr_mismatch'] += 1
        elif model is not None:
            ctx.stats['traces'] += 1
    if len(ctx.stats['samples']) < 4 and pairs:
        ctx.stats['samples'].append(dict(op=ops[len(ops) // 2][:120], result=impl[len(ops) // 2][:200]))
    if model is not None:
        if bad_corr is None:
            ctx.add_obl('B.corr ' + name, True)
        else:
            k = bad_corr
            path = core.write_replay(ctx, 'difflib: model and implementation disagree', [ops[k]],
                                     'impl : %s\nmodel: %s' % (impl[k][:600], model[k][:600]), None, dict(kind='difflib'))
            ctx.add_obl('B.corr ' + name, False, 'op %s\n impl : %s\n model: %s\nreplay: %s' % (ops[k][:100], impl[k][:300], model[k][:300], path))
            ctx.violations.append(('corr ' + name, path, False))


def parse_report(rep):
    """NO_COLOR report -> (deleted, inserted, rows) or None"""
    ls = rep.split(b'\n')
    m1 = re.match(rb'- Snapshot +- (\d+)$', ls[1]) if len(ls) > 2 else None
    m2 = re.match(rb'\+ Received +\+ (\d+)$', ls[2]) if len(ls) > 3 else None
    if ls[0] != b'' or not m1 or not m2 or ls[3] != b'':
        return None
    body = rep.split(b'\n', 4)[4]
    return int(m1.group(1)), int(m2.group(1)), body


def report_oracle(e, r):
    def f(line, raw, w):
        rep = line.out
        if e == r:
            return 'non-empty report for identical texts' if rep else None
        if not rep:
            return 'empty report for different texts'
        if 27 in rep and 27 not in e and 27 not in r:
            return 'escape sequence added in NO_COLOR mode'
        p = parse_report(rep)
        if p is None:
            return 'report header not recognised: %r' % rep[:80]
        deleted, inserted, body = p
        a_lines = [x + b'\n' for x in e.split(b'\n')]
        b_lines = [x + b'\n' for x in r.split(b'\n')]
        # rows: split the body back into rows of whole input lines (a row is prefix + line incl. "\n")
        pos, minus, plus, equal = 0, [], [], []
        foot = body.rfind(b'\nat ')
        rows_txt = body[:foot] if foot >= 0 else body
        i = 0
        cur_a, cur_b = 0, 0
        rest = rows_txt
        # greedy reconstruction using the known input lines
        import re as _re
        while rest:
            if rest.startswith(b'@@ -'):
                k = rest.index(b'@@\n\n') + 4
                rest = rest[k:]
                continue
            pre, rest2 = rest[:2], rest[2:]
            if pre == b'- ':
                cands = [l for l in a_lines if rest2.startswith(l)]
                if not cands:
                    return 'a `-` row is not a line of the stored text: %r' % rest2[:40]
                l = max(cands, key=len)
                minus.append(l)
                rest = rest2[len(l):]
            elif pre == b'+ ':
                cands = [l for l in b_lines if rest2.startswith(l)]
                if not cands:
                    return 'a `+` row is not a line of the received text: %r' % rest2[:40]
                l = max(cands, key=len)
                plus.append(l)
                rest = rest2[len(l):]
            elif pre == b'  ':
                cands = [l for l in a_lines if rest2.startswith(l)] + ([b'\xe2\x86\xb5\n'] if rest2.startswith(b'\xe2\x86\xb5\n') else [])
                if not cands:
                    return 'a context row is not a line of the stored text: %r' % rest2[:40]
                l = max(cands, key=len)
                rest = rest2[len(l):]
            elif rest == b'\n':
                break
            else:
                return 'unrecognised row: %r' % rest[:40]
        if len(minus) != deleted or len(plus) != inserted:
            return 'header counts -%d +%d but %d `-` rows and %d `+` rows are shown' % (deleted, inserted, len(minus), len(plus))
        # residue: removing the - rows from a and the + rows from b (as multisets, in order) leaves the same lines
        def remove(seq, rows):
            seq = list(seq)
            k = 0
            out = []
            rows = list(rows)
            for l in seq:
                if rows and l == rows[0]:
                    rows.pop(0)
                else:
                    out.append(l)
            return out if not rows else None
        ra, rb = remove(a_lines, minus), remove(b_lines, plus)
        if ra is None or rb is None:
            return None      # greedy in-order removal is ambiguous with repeated lines; the opcode-level check covers it
        if ra != rb and len(set(a_lines)) == len(a_lines) and len(set(b_lines)) == len(b_lines):
            return 'taking the - lines out of the stored text and the + lines out of the received text leaves different lines'
        return None
    return f


def collision_text_pairs(r, thorough=False):
    """texts that differ ONLY in lines that a coarser-than-bytes comparison takes for equal (hash
    collisions, equal prefixes, case/whitespace/normalisation variants, see collide.py): alone, inside
    short documents, inside documents long enough for hunk headers and for the popular-line purge"""
    out = [(a, b) for _, a, b in collide.deterministic_documents(r, per_class=6 if thorough else 2)]
    ps = collide.pairs()
    for _ in range(120 if thorough else 10):
        p = r.choice(ps)
        n = r.choice([30, 210, 260])
        out.append(collide.document_pair(r, p, n, None, repeats=r.choice([1, 1, 2, 5])))
    # both lines of a pair present on both sides, in swapped order / as an insertion next to its twin
    for p in (ps if thorough else r.sample(ps, 40)):
        a, b = collide.variant(r, p)
        out.append((b'\n'.join([a, b, b'tail']), b'\n'.join([b, a, b'tail'])))
        out.append((b'\n'.join([b'head', a, b'tail']), b'\n'.join([b'head', a, b, b'tail'])))
    return out


def collision_line_seqs(r, thorough=False):
    """the same vocabulary as sequences of whole lines for the difflib package itself"""
    out = []
    for p in collide.pairs():
        for _ in range(3 if thorough else 1):
            a, b = collide.variant(r, p)
            out.append(([a], [b]))
            out.append(([b'x', a, b'y'], [b'x', b, b'y']))
            out.append(([a, b], [b, a]))
            out.append(([a, a, b], [b, b, a]))
            out.append(([b'x', a], [b'x', a, b]))
            ta, tb = collide.document_pair(r, p, r.choice([12, 40]), None, repeats=r.choice([1, 2, 3]))
            out.append((ta.split(b'\n'), tb.split(b'\n')))
    for _ in range(60 if thorough else 8):
        ta, tb = collide.document_pair(r, r.choice(collide.pairs()), r.choice([205, 240, 320]), None, repeats=r.choice([1, 3, 6]))
        out.append((ta.split(b'\n'), tb.split(b'\n')))
    return out


def text_pairs(g, n, thorough=False):
    r = g.r
    out = []
    for _ in range(n):
        k = r.random()
        nl = r.choice([1, 1, 2, 3, 5, 8, 12, 30]) if k < 0.9 else r.choice([210, 260])
        pool = [g.line((), ('cr',)) for _ in range(max(2, nl // 2))] + ([b'windows line\r', b'\r'] if r.random() < 0.3 else [])
        if r.random() < 0.25:
            # snapshots of coloured CLI output: the escape sequences are part of the lines
            pool += [b'status: \x1b[31mFAIL\x1b[0m', b'status: \x1b[32mFAIL\x1b[0m', b'\x1b[1mbold\x1b[0m', b'status: FAIL']
        a = [r.choice(pool) for _ in range(nl)]
        b = list(a)
        for _ in range(r.choice([0, 1, 1, 2, 3])):
            op = r.random()
            if b and r.random() < 0.3:
                # swap a line for its twin under a hash / prefix / case / whitespace shortcut (collide.py)
                i = r.randrange(len(b))
                t = collide.partner(r, b[i])
                if t:
                    b[i] = t[0]
                    continue
            if op < 0.35 and b:
                b[r.randrange(len(b))] = g.line()
            elif op < 0.6:
                b.insert(r.randrange(len(b) + 1), g.line())
            elif op < 0.8 and b:
                del b[r.randrange(len(b))]
            elif b:
                i = r.randrange(len(b))
                b[i] = b[i] + r.choice([b' ', b'\xff', b'x', b'\r']) if not b[i].endswith(b'\r') or r.random() < 0.5 else b[i][:-1]
        ea, eb = b'\n'.join(a), b'\n'.join(b)
        if r.random() < 0.2:
            eb += b'\n'
        out.append((ea, eb))
    # a block of n lines replaced by n other lines (n = 2, 3, 4) BEHIND an insertion or a deletion: the positions of
    # the block in the two texts differ, so a report that reads the `+` rows at the position of the `-` rows shows
    # lines that were not added; near the top, the middle and the end, inside one hunk and in a hunk of its own
    for n in (6, 9, 14, 30):
        base = [b'line %02d of the text' % i for i in range(n)]
        for shift in ('ins', 'ins2', 'del', 'del2'):
            for blk in (2, 3, 4):
                for pos in sorted(set([2, n // 2, n - blk])):
                    if pos + blk > n or pos < 2:
                        continue
                    bb = list(base)
                    for q in range(pos, pos + blk):
                        bb[q] = b'changed %02d' % q
                    if shift.startswith('ins'):
                        bb = [b'added on top'] * (2 if shift == 'ins2' else 1) + bb
                    else:
                        bb = bb[(2 if shift == 'del2' else 1):]
                    out.append((b'\n'.join(base), b'\n'.join(bb)))
                    out.append((b'\n'.join(bb), b'\n'.join(base)))
    out += collision_text_pairs(r, thorough)
    # texts that differ only in the NUMBER of final newlines (and edits next to such an ending)
    for base in (b'hello', b'a\nb', b'', b'x\n\ny', b'{\n "k": 1\n}'):
        for i in range(4):
            for j in range(4):
                out.append((base + b'\n' * i, base + b'\n' * j))
                if i != j:
                    out.append((b'first\n' + base + b'\n' * i, b'FIRST\n' + base + b'\n' * j))
    return out


def run(ctx):
    rnd = random.Random(ctx.seed * 1000003 + 13)
    binary = core.build_pkg_harness(ctx, 'internal/difflib', 'difflib', 'difflib.test')
    seqs = [''.join(p) for n in range(6) for p in itertools.product('abc', repeat=n)]
    if binary:
        if ctx.tier == 'thorough':
            pairs = [(a, b) for a in seqs for b in seqs]
            EVIDENCE['exhaustive'] = True
        else:
            pairs = [(rnd.choice(seqs), rnd.choice(seqs)) for _ in range(13000)]
        difflib_suite(ctx, binary, 'difflib.abc-upto5', pairs)
        longp = []
        for _ in range(60 if ctx.tier == 'quick' else 600):
            n = rnd.randint(195, 330)
            alpha = rnd.choice(['abc', 'abcdef', 'abcdefghijklmnopqrstuvwxyzABCDEFGHIJKLMNOPQRSTUVWXYZ'])
            a = ''.join(rnd.choice(alpha + 'aaaa') for _ in range(n))
            b = list(a)
            for _ in range(rnd.randint(0, 6)):
                i = rnd.randrange(len(b))
                b[i:i + rnd.randint(0, 3)] = [rnd.choice(alpha) for _ in range(rnd.randint(0, 3))]
            longp.append((a, ''.join(b)))
        difflib_suite(ctx, binary, 'difflib.long-popular', longp)
        difflib_suite(ctx, binary, 'difflib.colliding-lines', collision_line_seqs(rnd, ctx.tier == 'thorough'), lines=True)
    g = Gen(ctx.seed * 1000003 + 131)
    pairs = text_pairs(g, 250 if ctx.tier == 'quick' else 6000, ctx.tier == 'thorough')
    worlds = []
    for i, (e, r) in enumerate(pairs):
        w = World('rep-%d' % i)
        w.add('pdiff %s %s %s %d' % (hx(e), hx(r), hx(b'some/file.snap'), 7), ('report-structure', report_oracle(e, r)))
        w.add('pdiff %s %s %s %d' % (hx(e), hx(e), hx(b'x'), 1), ('empty-for-identical', report_oracle(e, e)))
        worlds.append(w)
    run_suite(ctx, 'diff.report', worlds, known=None, chunk=500)
    # colours on: emptiness only (the ANSI layout and the inline rune diff are not modelled)
    cw = []
    gc = Gen(ctx.seed * 1000003 + 132)
    for i, (e, r) in enumerate(pairs[: len(pairs) // 2] + collision_text_pairs(gc.r, ctx.tier == 'thorough')):
        w = World('repc-%d' % i)

        def exp(line, raw, ww, e=e, r=r):
            if (line.out == b'') != (e == r):
                return 'colour mode: report empty=%s for %s texts' % (line.out == b'', 'identical' if e == r else 'different')
            return None
        w.add('pdiff %s %s %s %d' % (hx(e), hx(r), hx(b'f.snap'), 3), ('colour-empty-iff-identical', exp))
        cw.append(w)
    run_suite(ctx, 'diff.report.colour', cw, env={'NO_COLOR': ''}, use_model=False, chunk=500)
    # very long texts (thousands of lines) whose only difference lies far from the start: nothing may bound how
    # much of the texts is compared.  No model: the Lean diff engine is quadratic; the report is parsed and checked
    # against the two texts (rows, counts, residue), in both colour modes
    huge = []
    for i, (n, at) in enumerate([(5200, 5100), (7000, 6999), (6000, 5500)][: 2 if ctx.tier == 'quick' else 3]):
        a = [b'record %05d %s' % (k, b'x' * (k % 13)) for k in range(n)]
        b = list(a)
        b[at] = b[at] + b' changed'
        if i == 1:
            b.append(b'one more line at the very end')
        e, r = b'\n'.join(a), b'\n'.join(b)
        w = World('huge-%d' % i)
        w.add('pdiff %s %s %s %d' % (hx(e), hx(r), hx(b'big.snap'), 1), ('report-structure', report_oracle(e, r)))
        huge.append(w)
    run_suite(ctx, 'diff.report.huge', huge, known=None, use_model=False)

    def exp_huge(line, raw, ww):
        return 'colour mode: empty report for two different texts of thousands of lines' if line.out == b'' else None
    hc = []
    for w0 in huge:
        w = World(w0.tag + '-colour')
        w.add(w0.ops[-1], ('colour-empty-iff-identical', exp_huge))
        hc.append(w)
    run_suite(ctx, 'diff.report.huge.colour', hc, env={'NO_COLOR': ''}, known=None, use_model=False)
    findings.report(ctx, 'C13')


EVIDENCE = dict(rule='difflib: pairs of sequences over {a,b,c} up to length 5 (thorough: all 132 496 pairs, exhaustive; quick: 13 000 sampled) and random pairs of 195-330 elements (popular-element purge engaged), exact opcodes and hunks compared with the real package and four oracles (tiling, equal-only-identical, replay, hunk completeness) evaluated on the real output; reports: generated text pairs, exact report text compared, structure parsed; non-trivial = distinct (input, output) pairs')
