"""C15 - matchers change only what they target and never the caller's data."""
import json
import core, findings
import os
from core import World, hx, parse_fs
from gen import Gen, mode_line, cfg_line
import jsonlens
from suites import run_suite, parse_snap
import docs
from docs import Doc, flatten, parse_flat, replace_subtree

LEAN_MODULES = ['GoSnaps.Props.C15', 'GoSnaps.Props.Tie.Flows', 'GoSnaps.Props.Tie.Matchers',
                'GoSnaps.DriverX', 'GoSnaps.Lemmas.JsonPath', 'GoSnaps.Props.C16Json',
                'GoSnaps.Lemmas.JsonEndToEnd', 'GoSnaps.Props.Tie.JsonEndToEnd', 'GoSnaps.Props.Tie.Wrappers']


def set_path(v, fp, newv):
    parts = [x.replace('~1', '/') for x in fp.split('/')[1:]]
    cur = v
    for k in parts[:-1]:
        cur = cur[int(k)] if isinstance(cur, list) else cur[k]
    if isinstance(cur, list):
        cur[int(parts[-1])] = newv
    else:
        cur[parts[-1]] = newv


def del_path(v, fp):
    """delete the object member at the flattened path; False when the parent is an array"""
    parts = [x.replace('~1', '/') for x in fp.split('/')[1:]]
    cur = v
    for k in parts[:-1]:
        cur = cur[int(k)] if isinstance(cur, list) else cur[k]
    if isinstance(cur, dict) and parts[-1] in cur:
        del cur[parts[-1]]
        return True
    return False


def disjoint(a, b):
    return not (a == b or a.startswith(b + '/') or b.startswith(a + '/'))


def build_steps(g, direct=False):
    """a document and a matcher sequence with, per matcher, what must come out:
    (token, [flattened target paths] | None, new value, error expected)"""
    r = g.r
    d = Doc(g)
    steps = []
    lenient_first = []      # first path of a lenient matcher with several PRESENT paths
    cur = json.loads(json.dumps(d.value))
    for _ in range(r.randint(1, 4)):
        # paths of the document as it is after the earlier matchers of the sequence
        dd = Doc.__new__(Doc)
        dd.paths = []
        dd.index(cur, [], [])
        cand = [p for p in dd.paths if p[0]]
        if not cand:
            break
        gp, fp, v = r.choice(cand)
        k = r.random()
        others = [q for q in cand if disjoint(q[1], fp)]
        if k < 0.15:
            # several paths, the leading ones absent and ignored: the present one is still replaced,
            # and the caller's bytes stay untouched
            if docs.go_type(v) and r.random() < 0.5:
                steps.append((docs.type_matcher(['not.there', gp], docs.go_type(v), False), [fp], docs.type_placeholder(v), False))
                set_path(cur, fp, docs.type_placeholder(v))
            else:
                ph = r.choice(docs.PLACEHOLDERS)
                steps.append((docs.any_matcher(['not.there', 'nor.this', gp], ph, False), [fp], json.loads(ph), False))
                set_path(cur, fp, json.loads(ph))
        elif k < 0.30 and others:
            # ONE matcher, several paths that all exist (disjoint): every one of them is replaced, in this
            # document and in every later one the same matcher value sees
            more = [fp_ for fp_ in r.sample(others, min(len(others), r.randint(1, 2)))]
            chosen = [(gp, fp)]
            for q in more:
                if all(disjoint(q[1], c[1]) for c in chosen):
                    chosen.append((q[0], q[1]))
            r.shuffle(chosen)
            ph = r.choice(docs.PLACEHOLDERS)
            eom = r.random() < 0.4
            vals = dict((q[1], q[2]) for q in cand)
            tys = set(docs.go_type(vals[c[1]]) for c in chosen)
            if len(tys) == 1 and None not in tys and r.random() < 0.4:
                # Type over several paths holding values of one type
                ty = tys.pop()
                ph = json.dumps(docs.type_placeholder(vals[chosen[0][1]]))
                steps.append((docs.type_matcher([c[0] for c in chosen], ty, eom), [c[1] for c in chosen], json.loads(ph), False))
            else:
                steps.append((docs.any_matcher([c[0] for c in chosen], ph, eom), [c[1] for c in chosen], json.loads(ph), False))
            for c in chosen:
                set_path(cur, c[1], json.loads(ph))
            if not eom and len(chosen) > 1:
                lenient_first.append(chosen[0][1])
        elif k < 0.38 and any(q[1].startswith(fp + '/') for q in cand):
            # one matcher, a container path followed by a path INSIDE it: after the first replacement
            # (a scalar placeholder) the second path no longer exists, which must be reported
            inner = r.choice([q for q in cand if q[1].startswith(fp + '/')])
            ph = r.choice([x for x in docs.PLACEHOLDERS if x[0] not in '{['])
            if r.random() < 0.5:
                steps.append((docs.any_matcher([gp, inner[0]], ph), None, None, True))
            else:
                # the other way round - the inner path first, then its container - both exist when their turn comes:
                # no error, and in the end the container holds the placeholder (paths take effect in the order given)
                steps.append((docs.any_matcher([inner[0], gp], ph), [fp], json.loads(ph), False))
                set_path(cur, fp, json.loads(ph))
        elif k < 0.46 and any(isinstance(q[2], list) and q[2] and all(isinstance(e, dict) and 'first' in e for e in q[2]) for q in cand):
            # one path that addresses SEVERAL values: a member of every element of an array of records
            lgp, lfp, lv = r.choice([q for q in cand if isinstance(q[2], list) and q[2] and all(isinstance(e, dict) and 'first' in e for e in q[2])])
            member = r.choice(['first', 'age'])
            ph = r.choice(docs.PLACEHOLDERS)
            targets = ['%s/%d/%s' % (lfp, i, member) for i in range(len(lv))]
            kind_ = r.random()
            if kind_ < 0.6:
                steps.append((docs.any_matcher(['%s.#.%s' % (lgp, member)], ph), targets, json.loads(ph), False))
            else:
                steps.append((docs.custom_matcher('%s.#.%s' % (lgp, member), True, ph), targets, json.loads(ph), False))
            for t_ in targets:
                set_path(cur, t_, json.loads(ph))
        elif k < 0.60:
            ph = r.choice(docs.PLACEHOLDERS)
            steps.append((docs.any_matcher([gp], ph), [fp], json.loads(ph), False))
            set_path(cur, fp, json.loads(ph))
        elif k < 0.68 and docs.go_type(v):
            # (match.Type[any] accepts every value; its placeholder still names the value's own type)
            steps.append((docs.type_matcher([gp], 'any' if r.random() < 0.3 else docs.go_type(v)), [fp], docs.type_placeholder(v), False))
            set_path(cur, fp, docs.type_placeholder(v))
        elif k < 0.76 and docs.go_type(v) and docs.go_type(v) != 'string':
            # paths of one matcher take effect left to right: the second `gp` finds the string
            # placeholder written by the first, so a type error must be reported
            steps.append((docs.type_matcher([gp, gp], docs.go_type(v)), None, None, True))
        elif k < 0.9:
            # (a callback that returns nil redacts the value to null: it is a replacement like any other)
            ph = 'null' if r.random() < 0.25 else r.choice(docs.PLACEHOLDERS)
            steps.append((docs.custom_matcher(gp, True, ph, as_bytes=direct and isinstance(json.loads(ph), str) and r.random() < 0.4), [fp], json.loads(ph), False))
            set_path(cur, fp, json.loads(ph))
        else:
            steps.append((docs.any_matcher(['definitely.missing'], None, True), None, None, True))
    return d, steps, cur, lenient_first


def pruned(g, d, prefer):
    """another document of the same family: some object members are absent"""
    r = g.r
    v = json.loads(json.dumps(d.value))
    cands = [p[1] for p in d.paths]
    r.shuffle(cands)
    for fp in [x for x in prefer if r.random() < 0.8] + cands[:r.randint(0, 2)]:
        try:
            del_path(v, fp)
        except (KeyError, IndexError, TypeError, ValueError):
            pass
    return v


def make_world(g, tag):
    r = g.r
    d, steps, _, lenient_first = build_steps(g, direct=True)
    w = World(tag)
    text = d.text().encode()

    def oracle(line, raw, ww):
        parts = raw.split(' ')[1:]
        if len(parts) != len(steps):
            return 'expected %d matcher results' % len(steps)
        for (mt, fps, newv, wanterr), part in zip(steps, parts):
            f = dict(x.split(':', 1) for x in part.split('|'))
            errs = [e for e in f['errs'].split('+') if e]
            if f['mut'] != '0':
                ww.flags.add('D2')
                return 'the bytes passed by the caller were modified by matcher %s' % mt
            if wanterr:
                if not errs:
                    return 'a missing path was not reported'
                continue
            fb, fa = parse_flat(f['fb']), parse_flat(f['fa'])
            for fp in fps:
                if not any(p == fp or p.startswith(fp + '/') for p, _ in fb):
                    # an earlier matcher was not applied as expected (reported at that step)
                    ww.flags.add('desync')
                    return 'the document no longer has the path %s (an earlier replacement did not happen)' % fp
            if not errs and any(l.startswith('!') for _, l in fa):
                return 'the matcher output is not a valid document: %r' % [l for _, l in fa if l.startswith('!')][:1]
            if errs:
                return 'unexpected matcher error for an existing path: %r' % bytes.fromhex(errs[0].split('~')[2]).decode('utf-8', 'replace')
            want = fb
            for fp in fps:
                want = replace_subtree(want, fp, flatten(newv, fp))
            if fa != want:
                diff = [(a, b) for a, b in zip(fa, want) if a != b][:2]
                if isinstance(newv, str) and any(ord(ch) > 126 or ch in '"\\' for ch in newv):
                    ww.flags.add('D13')
                return 'output differs from the input with exactly %s replaced; first differences (got, want): %r' % (fps, diff or (len(fa), len(want)))
        return None

    def untouched(line, raw, ww):
        for part in raw.split(' ')[1:]:
            f = dict(x.split(':', 1) for x in part.split('|'))
            if f['mut'] != '0':
                ww.flags.add('D2')
                return 'the bytes passed by the caller were modified'
        return None
    toks = ' '.join(s[0] for s in steps)
    if r.random() < 0.4:
        # the same matcher VALUES (the harness caches them per world) first see ANOTHER document, in which
        # some of their paths do not exist: a matcher keeps no state between documents
        other = g.json_text(pruned(g, d, lenient_first)).encode()
        w.add('mdoc json %s %s' % (hx(other), toks), ('callers-bytes-untouched', untouched))
    w.add('mdoc json %s %s' % (hx(text), toks), ('only-target-replaced', oracle))
    if r.random() < 0.5:
        # the same matcher values applied to the same document again
        w.add('mdoc json %s %s' % (hx(text), toks), ('only-target-replaced-second-use', oracle))
    return w


WS_HEAD = ['', '', '\n', ' \n\t', '  ']
WS_TAIL = ['', '\n', '\n', '\n\n', ' ', '\r\n']


def entry_world(g, tag):
    """The same documents and matcher sequences through the ENTRY POINTS (snaps.MatchJSON /
    MatchStandaloneJSON, package level and through a Config): the caller's []byte - handed over with
    insignificant whitespace, indentation and a final newline, as an http body or a file would be - is
    inspected after the call; the stored document is the input with exactly the targets replaced; a
    second execution with the same bytes and the same matcher values passes silently."""
    r = g.r
    d, steps, cur, _ = build_steps(g)
    kind = r.choice(['json', 'json', 'sajson'])
    form = r.choice(['b', 'b', 'b', 's', 'v'])
    text = (r.choice(WS_HEAD) + d.text() + r.choice(WS_TAIL)).encode()
    toks = docs.maybe_wrap(r, [s[0] for s in steps], 0.15)
    failing = any(s[3] for s in steps)
    w = World(tag)
    w.add(mode_line(False, ''))
    w.add(cfg_line(1, 'snaps'))

    def exp_first(line, raw, ww):
        ks = [k for k, _ in line.events]
        if 'X' in ks:
            return 'the []byte passed by the caller was modified by the call (matchers %s)' % ' '.join(toks)
        if failing:
            if ks != ['E'] or line.writes or line.removed:
                return 'a failing matcher must give one failure and no write, got %r w=%r' % ([(k, x[:40]) for k, x in line.events], line.writes)
            return None
        if ks != ['L'] or not line.events[0][1].endswith(b'added') or len(line.writes) != 1:
            return 'expected the snapshot to be recorded, got %r w=%r' % ([(k, x[:60]) for k, x in line.events], line.writes)
        return None

    def exp_second(line, raw, ww):
        ks = [k for k, _ in line.events]
        if 'X' in ks:
            return 'the []byte passed by the caller was modified by the call (second execution)'
        if failing:
            return None if ks == ['E'] and not line.writes else 'a failing matcher must give one failure and no write (second execution)'
        if ks or line.writes or line.removed:
            return 'the same bytes through the same matcher values no longer pass: %r' % [(k, x[:80]) for k, x in line.events]
        return None

    def exp_stored(line, raw, ww):
        fs = parse_fs(raw)
        if failing:
            return None if not fs else 'a call with failing matchers left files behind: %r' % sorted(fs)
        if len(fs) != 1:
            return 'expected exactly one snapshot file, found %r' % sorted(fs)
        body = list(fs.values())[0]
        if kind == 'json':
            ents = parse_snap(body)
            if not ents or len(ents) != 1:
                return 'snapshot file not well formed'
            body = ents[0][1]
        try:
            got = json.loads(body.decode())
        except Exception as e:
            return 'stored text is not valid JSON: %s' % e
        if got != cur:
            return 'the stored document is not the input with exactly the targeted values replaced'
        return None
    op = '%s 1 %%d %s %s %s' % (kind, form, hx(text), ' '.join(toks))
    w.add('begin 1 %s' % hx(b'TestEntry'))
    w.add(op % 1, ('entry-callers-bytes-and-result', exp_first))
    w.add('end 1')
    w.add('begin 2 %s' % hx(b'TestEntry'))
    w.add(op % 2, ('entry-second-execution', exp_second))
    w.add('end 2')
    w.add('fsdump', ('entry-stored-document', exp_stored))
    return w


def known(w, p):
    if p['kind'] != 'expect':
        return None
    if 'D2' in w.flags:
        return 'D2'
    if 'D13' in w.flags:
        return 'D13'
    if 'D16' in w.flags:
        return 'D16'
    return None


def yaml_world(g, tag):
    """YAML: simple block documents; target replaced, everything else same value and position"""
    r = g.r
    keys = r.sample(['a', 'b', 'name', 'id', 'n', 'flag', 'text'], r.randint(2, 5))
    vals, lines = {}, []
    for k in keys:
        c = r.random()
        if c < 0.5:
            v = r.choice([('1', 'uint64:1'), ('true', 'bool:true'), ('hello', 'string:hello'), ('"q s"', 'string:q s'), ('3.5', 'float64:3.5')])
            lines.append('%s: %s' % (k, v[0]))
            vals[k] = ('$.' + k, '/' + k)
        elif c < 0.8:
            lines.append('%s:' % k)
            lines.append('  inner: x # c')
            lines.append('  other: 2')
            vals[k + '.inner'] = ('$.%s.inner' % k, '/%s/inner' % k)
        else:
            lines.append('%s:' % k)
            lines.append('  - e0')
            lines.append('  - e1')
            vals[k + '[1]'] = ('$.%s[1]' % k, '/%s/1' % k)
    text = '\n'.join(lines) + ('\n' if r.random() < 0.7 else '')
    tk = r.choice(sorted(vals))
    ypath, fp = vals[tk]
    pool = list(docs.YAML_TRICKY_STRINGS)
    d16 = False
    if r.random() < 0.08:
        # the strings of known finding D16 (re-parsed as float / sequence / mapping, dropped, or a panic)
        ph = json.dumps(r.choice(docs.YAML_DEFECT_STRINGS))
        d16 = True
    elif r.random() < 0.5:
        # a replacement STRING that would be something else (a number, a bool, null, a mapping, a comment,
        # nothing at all) if it were written into the document bare
        ph = json.dumps(r.choice(pool))
    else:
        ph = r.choice(['"<Any value>"', '"x"', '"longer placeholder text"', 'true'])
    phv = json.loads(ph)
    lit = ('string:' + phv) if isinstance(phv, str) else 'bool:true'
    # the replacement comes from Any's placeholder or from a Custom callback
    mt = docs.any_matcher([ypath], ph) if r.random() < 0.6 else docs.custom_matcher(ypath, True, ph)
    w = World(tag)
    if d16:
        w.flags.add('D16')

    def oracle(line, raw, ww):
        if not raw.startswith('mdoc '):
            return 'the matcher did not return (%s)' % core.unhx(raw.split(':', 1)[1] if ':' in raw else '').decode('utf-8', 'replace')[:120]
        part = raw.split(' ')[1]
        f = dict(x.split(':', 1) for x in part.split('|'))
        if f['mut'] != '0':
            return 'the bytes passed by the caller were modified'
        if [e for e in f['errs'].split('+') if e]:
            return 'unexpected matcher error: %r' % f['errs'][:80]
        fb, fa = parse_flat(f['fb']), parse_flat(f['fa'])
        want = replace_subtree(fb, fp, [(fp, lit)])
        if fa != want:
            return 'YAML output differs from the input with exactly %s replaced by %s: %r' % (fp, lit, [(a, b) for a, b in zip(fa, want or []) if a != b][:2] or (len(fa), len(want or [])))
        out = core.unhx(f['out'])
        if out.endswith(b'\n') != text.endswith('\n'):
            return 'final newline not preserved'
        return None
    w.add('mdoc yaml %s %s' % (hx(text), mt), ('yaml-only-target-replaced', oracle))
    if r.random() < 0.3:
        w.add('mdoc yaml %s %s' % (hx(text), mt), ('yaml-only-target-replaced-second-use', oracle))
    if r.random() < 0.5:
        # the same document and matcher through snaps.MatchYAML with the caller's []byte
        def exp_entry(line, raw, ww):
            ks = [k for k, _ in line.events]
            if 'X' in ks:
                return 'the []byte passed by the caller was modified by MatchYAML'
            if ks != ['L'] or len(line.writes) != 1:
                return 'expected the YAML snapshot to be recorded, got %r' % [(k, x[:60]) for k, x in line.events]
            return None

        def exp_again(line, raw, ww):
            ks = [k for k, _ in line.events]
            if ks or line.writes:
                return 'the same bytes through the same matcher value no longer pass: %r' % [(k, x[:80]) for k, x in line.events]
            return None
        w.add(mode_line(False, ''))
        w.add(cfg_line(1, 'snaps'))
        w.add('begin 1 %s' % hx(b'TestYEntry'))
        w.add('yaml 1 1 %s %s %s' % (r.choice(['b', 'b', 's']), hx(text), mt), ('yaml-entry-callers-bytes', exp_entry))
        w.add('end 1')
        w.add('begin 2 %s' % hx(b'TestYEntry'))
        w.add('yaml 1 2 b %s %s' % (hx(text), mt), ('yaml-entry-second-execution', exp_again))
        w.add('end 2')
    return w


YDOC = ('user:\n  name: mock-user\n  info:\n    email: mock-email\n    tags:\n      - a\n      - b\n'
        'date: 16/10/2022\nlist:\n  - x: 1\n    y: 2\n  - z\n')
YVAL = {'user': {'name': 'mock-user', 'info': {'email': 'mock-email', 'tags': ['a', 'b']}}, 'date': '16/10/2022', 'list': [{'x': 1, 'y': 2}, 'z']}
# several paths at different depths in ONE matcher, scalar and non-scalar placeholders
YCASES = [
    (['$.user.info.email', '$.date'], {'k': 1.0, 'l': [1.0, 2.0]}, [('user.info.email',), ('date',)]),
    (['$.user.info.tags[1]', '$.list[0].x', '$.date'], ['p', 'q'], [('user.info.tags.1',), ('list.0.x',), ('date',)]),
    (['$.date', '$.list[0].y', '$.user.name', '$.user.info.tags[0]'], '<Any value>', [('date',), ('list.0.y',), ('user.name',), ('user.info.tags.0',)]),
    (['$.user.name', '$.user.info.email'], 'x', [('user.name',), ('user.info.email',)]),
]


def yflat(v, path=''):
    out = []
    if isinstance(v, dict):
        out.append((path, '{'))
        for k, x in v.items():
            out += yflat(x, path + '/' + k)
        out.append((path, '}'))
    elif isinstance(v, list):
        out.append((path, '['))
        for i, x in enumerate(v):
            out += yflat(x, path + '/' + str(i))
        out.append((path, ']'))
    elif isinstance(v, bool):
        out.append((path, 'bool:' + str(v).lower()))
    elif isinstance(v, float):
        out.append((path, 'float64:%g' % v))
    elif isinstance(v, int):
        out.append((path, 'uint64:%d' % v))
    else:
        out.append((path, 'string:' + str(v)))
    return out


def yaml_fixed_worlds():
    import copy
    ws = []
    for n, (paths, ph, targets) in enumerate(YCASES):
        want = copy.deepcopy(YVAL)
        for (t,) in targets:
            set_path(want, '/' + t.replace('.', '/'), ph)
        w = World('c15yf-%d' % n)

        def oracle(line, raw, ww, want=want):
            if not raw.startswith('mdoc '):
                return 'the matcher did not return (%s)' % raw[:120]
            f = dict(x.split(':', 1) for x in raw.split(' ')[1].split('|'))
            if f['mut'] != '0':
                return 'the bytes passed by the caller were modified'
            if [e for e in f['errs'].split('+') if e]:
                return 'unexpected matcher error'
            fa = parse_flat(f['fa'])
            if fa != yflat(want):
                return 'YAML output is not the input with exactly the targeted values replaced: %r' % [(a, b) for a, b in zip(fa, yflat(want)) if a != b][:3]
            return None
        w.add('mdoc yaml %s %s' % (hx(YDOC), docs.any_matcher(paths, json.dumps(ph))), ('yaml-multi-path-replaced', oracle))
        ws.append(w)
        # the same through a matcher VALUE that was applied before under another placeholder and configured again
        # (harness flag `r`): the placeholder it carries NOW is what is written
        w2 = World('c15yf-reused-%d' % n)
        w2.add('mdoc yaml %s %s' % (hx(YDOC), docs.any_matcher(paths, json.dumps(ph), True, False).replace('A;1;', 'A;1r;', 1)), ('yaml-reconfigured-matcher-writes-its-current-placeholder', oracle))
        ws.append(w2)
    return ws


def yaml_stream_worlds():
    """a stream of several YAML documents through a matcher: the documents stay apart (the `---` markers are kept), the
    ones the path does not address come out as they went in"""
    ws = []
    streams = [('a: 1\nkind: X\n---\nb: 2\nkind: Y\n', '$.a', ['b: 2\nkind: Y']),
               ('kind: Deployment\nname: web\n---\nkind: Service\nname: web\n---\nkind: Ingress\nhost: h\n', '$.host', None),
               ('---\na: 1\n---\nb: 2\n', '$.a', ['b: 2']),
               ('a: 1\nl:\n  - x\n---\nz: [1, 2]\n', '$.l[0]', ['z: [1, 2]'])]
    for n, (doc, path, untouched) in enumerate(streams):
        for kind in ('A', 'C', 'T'):
            w = World('c15ys-%d-%s' % (n, kind))
            ndocs = len([d for d in ('\n' + doc).split('\n---\n') if d.strip()])
            mt = docs.any_matcher([path], '"MASK"', False) if kind == 'A' else (docs.custom_matcher(path, True, '"MASK"', False) if kind == 'C' else docs.type_matcher([path], 'any', False))

            def oracle(line, raw, ww, ndocs=ndocs, untouched=untouched, doc=doc):
                if not raw.startswith('mdoc '):
                    return 'the matcher did not return (%s)' % raw[:120]
                f = dict(x.split(':', 1) for x in raw.split(' ')[1].split('|'))
                out = bytes.fromhex(f['out']).decode('utf-8', 'replace')
                if [e for e in f['errs'].split('+') if e]:
                    return None         # (a path that some document lacks may be reported; then nothing is handed on)
                parts = [d for d in ('\n' + out).split('\n---\n') if d.strip()]
                if len(parts) != ndocs:
                    return 'a stream of %d documents came out as %d: %r' % (ndocs, len(parts), out)
                for u in untouched or []:
                    if not any(pt.strip() == u for pt in parts):
                        return 'the document %r the path does not address did not come out as it went in: %r' % (u, out)
                return None
            w.add('mdoc yaml %s %s' % (hx(doc), mt), ('yaml-stream-documents-kept-apart', oracle))
            ws.append(w)
    return ws


def unencodable_worlds():
    """a placeholder the encoder rejects on a path that EXISTS: the value is not replaced, so an error is reported -
    also by a matcher that tolerates MISSING paths (ErrOnMissingPath(false) forgives absence, nothing else)"""
    ws = []
    for n, (kind, doc, path) in enumerate([('json', '{"session": "s3cr3t", "n": 1}', 'session'), ('json', '{"a": {"b": [1, 2]}}', 'a.b'),
                                          ('yaml', 'session: s3cr3t\nn: 1\n', '$.session')]):
        for eom in (True, False):
            w = World('c15un-%d-%d' % (n, eom))

            def oracle(line, raw, ww, doc=doc):
                if not raw.startswith('mdoc '):
                    return 'the matcher did not return (%s)' % raw[:120]
                f = dict(x.split(':', 1) for x in raw.split(' ')[1].split('|'))
                if not [e for e in f['errs'].split('+') if e]:
                    return 'the value at an existing path was not replaced (the placeholder cannot be encoded) and no error was reported; output %r' % bytes.fromhex(f['out'])[:80]
                return None
            w.add('mdoc %s %s %s' % (kind, hx(doc), docs.any_matcher([path], '"@unencodable"', eom)), ('unreplaced-value-is-reported', oracle))
            ws.append(w)
    return ws


def typed_placeholder_worlds():
    """a composite placeholder whose elements are Go integers (`[]int64{9007199254740993, 7}`, a map with an int and an
    int64): what arrives in the snapshot is the placeholder as given - every digit of it - through MatchJSON and
    MatchStandaloneJSON, as the only matcher and behind another one"""
    worlds = []
    doc = '{"id": 1, "tags": ["a"], "meta": {"v": 1}, "z": "end"}'
    want = {'"@bigints"': [9007199254740993, 7], '"@intmap"': {'version': 3, 'big': 9007199254740993, 'ids': [1, 2]}}
    k = 0
    for ph in sorted(want):
        for kind in ('json', 'sajson'):
            for path, extra in (('tags', ''), ('meta', ''), ('tags', ' ' + docs.any_matcher(['id']))):
                k += 1
                w = World('c15-typedph-%d' % k)
                w.add(mode_line(False, ''))
                w.add(cfg_line(1, 'snaps', 'f' if kind == 'json' else None, None, 'none'))
                w.add('begin 1 %s' % hx(b'TestTypedPh'))
                rec = w.add('%s 1 1 s %s %s%s' % (kind, hx(doc), docs.any_matcher([path], ph), extra))
                w.add('end 1')

                def oracle(line, raw, ww, ph=ph, path=path, kind=kind, rec=rec):
                    if [e for e, _ in core.Line(ww.impl[rec]).events] != ['L']:
                        return 'the call with a composite integer placeholder was not recorded: %r' % [(e, x[:60]) for e, x in core.Line(ww.impl[rec]).events]
                    fs0 = parse_fs(raw)
                    if kind == 'json':
                        pp = [x for x in fs0 if x.endswith(b'/f.snap')]
                        body = dict(parse_snap(fs0[pp[0]]) or []).get(b'TestTypedPh - 1') if pp else None
                    else:
                        bodies = [fs0[x] for x in fs0 if b'/TestTypedPh_1' in x]
                        body = bodies[0] if bodies else None
                    try:
                        got = json.loads(body.decode())[path]
                    except Exception:
                        return 'stored text is not the document: %r' % (body[:120] if body else body)
                    def same(a, b):
                        if isinstance(b, dict):
                            return isinstance(a, dict) and set(a) == set(b) and all(same(a[x], b[x]) for x in b)
                        if isinstance(b, list):
                            return isinstance(a, list) and len(a) == len(b) and all(same(x, y) for x, y in zip(a, b))
                        return type(a) == type(b) and a == b
                    if not same(got, want[ph]):
                        return 'the placeholder %r arrived as %r' % (want[ph], got)
                    return None
                w.add('fsdump', ('integer-placeholder-arrives-as-given', oracle))
                worlds.append(w)
    return worlds


def run(ctx):
    jsonlens.run_json_lens(ctx)
    g = Gen(ctx.seed * 1000003 + 15)
    docs.STYLE = g.r
    n = 400 if ctx.tier == 'quick' else 12000
    worlds = [make_world(g, 'c15-%d' % i) for i in range(n)]
    worlds += [yaml_world(g, 'c15y-%d' % i) for i in range(n // 2)]
    worlds += yaml_fixed_worlds()
    worlds += yaml_stream_worlds()
    worlds += unencodable_worlds()
    run_suite(ctx, 'matchers.direct', worlds, known=known, use_model=False, chunk=1000)
    worlds = [entry_world(g, 'c15e-%d' % i) for i in range(n // 2)]
    worlds += typed_placeholder_worlds()
    run_suite(ctx, 'matchers.entrypoints', worlds, known=known, chunk=500)
    findings.report(ctx, 'C15')
