"""C15 - matchers change only what they target and never the caller's data."""
import json
import core, findings
from core import World, hx
from gen import Gen
from suites import run_suite
import docs
from docs import Doc, flatten, parse_flat, replace_subtree

LEAN_MODULES = ['GoSnaps.Props.C15', 'GoSnaps.Props.Tie.Flows', 'GoSnaps.Props.Tie.Matchers']


def set_path(v, fp, newv):
    parts = [x.replace('~1', '/') for x in fp.split('/')[1:]]
    cur = v
    for k in parts[:-1]:
        cur = cur[int(k)] if isinstance(cur, list) else cur[k]
    if isinstance(cur, list):
        cur[int(parts[-1])] = newv
    else:
        cur[parts[-1]] = newv


def make_world(g, tag):
    r = g.r
    d = Doc(g)
    steps = []
    cur = json.loads(json.dumps(d.value))
    for _ in range(r.randint(1, 4)):
        # paths of the document as it is after the earlier matchers of the sequence
        dd = Doc.__new__(Doc)
        dd.paths = []
        dd.index(cur, [], [])
        cand = [p for p in dd.paths if p[0]]
        if not cand:
            break
        gp, fp, v = r.choice(cand)
        k = r.random()
        if k < 0.15:
            # several paths, the leading ones absent and ignored: the present one is still replaced,
            # and the caller's bytes stay untouched
            if docs.go_type(v) and r.random() < 0.5:
                steps.append((docs.type_matcher(['not.there', gp], docs.go_type(v), False), fp, docs.type_placeholder(v), False))
                set_path(cur, fp, docs.type_placeholder(v))
            else:
                ph = r.choice(docs.PLACEHOLDERS)
                steps.append((docs.any_matcher(['not.there', 'nor.this', gp], ph, False), fp, json.loads(ph), False))
                set_path(cur, fp, json.loads(ph))
        elif k < 0.25 and any(q[1].startswith(fp + '/') for q in cand):
            # one matcher, a container path followed by a path INSIDE it: after the first replacement
            # (a scalar placeholder) the second path no longer exists, which must be reported
            inner = r.choice([q for q in cand if q[1].startswith(fp + '/')])
            ph = r.choice([x for x in docs.PLACEHOLDERS if x[0] not in '{['])
            steps.append((docs.any_matcher([gp, inner[0]], ph), None, None, True))
        elif k < 0.55:
            ph = r.choice(docs.PLACEHOLDERS)
            steps.append((docs.any_matcher([gp], ph), fp, json.loads(ph), False))
            set_path(cur, fp, json.loads(ph))
        elif k < 0.65 and docs.go_type(v):
            steps.append((docs.type_matcher([gp], docs.go_type(v)), fp, docs.type_placeholder(v), False))
            set_path(cur, fp, docs.type_placeholder(v))
        elif k < 0.75 and docs.go_type(v) and docs.go_type(v) != 'string':
            # paths of one matcher take effect left to right: the second `gp` finds the string
            # placeholder written by the first, so a type error must be reported
            steps.append((docs.type_matcher([gp, gp], docs.go_type(v)), None, None, True))
        elif k < 0.9:
            ph = r.choice(docs.PLACEHOLDERS)
            steps.append((docs.custom_matcher(gp, True, ph), fp, json.loads(ph), False))
            set_path(cur, fp, json.loads(ph))
        else:
            steps.append((docs.any_matcher(['definitely.missing'], None, True), None, None, True))
    w = World(tag)
    text = d.text().encode()

    def oracle(line, raw, ww):
        parts = raw.split(' ')[1:]
        if len(parts) != len(steps):
            return 'expected %d matcher results' % len(steps)
        for (mt, fp, newv, wanterr), part in zip(steps, parts):
            f = dict(x.split(':', 1) for x in part.split('|'))
            errs = [e for e in f['errs'].split('+') if e]
            if f['mut'] != '0':
                ww.flags.add('D2')
                return 'the bytes passed by the caller were modified by matcher %s' % mt
            if wanterr:
                if not errs:
                    return 'a missing path was not reported'
                continue
            fb, fa = parse_flat(f['fb']), parse_flat(f['fa'])
            if not any(p == fp or p.startswith(fp + '/') for p, _ in fb):
                # an earlier matcher was not applied as expected (reported at that step)
                ww.flags.add('desync')
                return 'the document no longer has the path %s (an earlier replacement did not happen)' % fp
            if not errs and any(l.startswith('!') for _, l in fa):
                return 'the matcher output is not a valid document: %r' % [l for _, l in fa if l.startswith('!')][:1]
            if errs:
                return 'unexpected matcher error for an existing path: %r' % bytes.fromhex(errs[0].split('~')[2]).decode('utf-8', 'replace')
            want = replace_subtree(fb, fp, flatten(newv, fp))
            if fa != want:
                diff = [(a, b) for a, b in zip(fa, want) if a != b][:2]
                if isinstance(newv, str) and any(ord(ch) > 126 or ch in '"\\' for ch in newv):
                    ww.flags.add('D13')
                return 'output differs from the input with exactly %s replaced; first differences (got, want): %r' % (fp, diff or (len(fa), len(want)))
        return None
    w.add('mdoc json %s %s' % (hx(text), ' '.join(s[0] for s in steps)), ('only-target-replaced', oracle))
    if r.random() < 0.5:
        # the same matcher VALUES (the harness caches them per world) applied to the same document
        # again: a matcher keeps no state between documents
        w.add('mdoc json %s %s' % (hx(text), ' '.join(s[0] for s in steps)), ('only-target-replaced-second-use', oracle))
    return w


def known(w, p):
    if p['kind'] != 'expect':
        return None
    if 'D2' in w.flags:
        return 'D2'
    if 'D13' in w.flags:
        return 'D13'
    return None


def yaml_world(g, tag):
    """YAML: simple block documents; target replaced, everything else same value and position"""
    r = g.r
    keys = r.sample(['a', 'b', 'name', 'id', 'n', 'flag', 'text'], r.randint(2, 5))
    vals, lines = {}, []
    for k in keys:
        c = r.random()
        if c < 0.5:
            v = r.choice([('1', 'uint64:1'), ('true', 'bool:true'), ('hello', 'string:hello'), ('"q s"', 'string:q s'), ('3.5', 'float64:3.5')])
            lines.append('%s: %s' % (k, v[0]))
            vals[k] = ('$.' + k, '/' + k)
        elif c < 0.8:
            lines.append('%s:' % k)
            lines.append('  inner: x # c')
            lines.append('  other: 2')
            vals[k + '.inner'] = ('$.%s.inner' % k, '/%s/inner' % k)
        else:
            lines.append('%s:' % k)
            lines.append('  - e0')
            lines.append('  - e1')
            vals[k + '[1]'] = ('$.%s[1]' % k, '/%s/1' % k)
    text = '\n'.join(lines) + ('\n' if r.random() < 0.7 else '')
    tk = r.choice(sorted(vals))
    ypath, fp = vals[tk]
    ph = r.choice(['"<Any value>"', '"x"', '"longer placeholder text"', 'true'])
    phv = json.loads(ph)
    lit = ('string:' + phv) if isinstance(phv, str) else 'bool:true'
    w = World(tag)

    def oracle(line, raw, ww):
        part = raw.split(' ')[1]
        f = dict(x.split(':', 1) for x in part.split('|'))
        if f['mut'] != '0':
            return 'the bytes passed by the caller were modified'
        if [e for e in f['errs'].split('+') if e]:
            return 'unexpected matcher error: %r' % f['errs'][:80]
        fb, fa = parse_flat(f['fb']), parse_flat(f['fa'])
        want = replace_subtree(fb, fp, [(fp, lit)])
        if fa != want:
            return 'YAML output differs from the input with exactly %s replaced: %r' % (fp, [(a, b) for a, b in zip(fa, want or []) if a != b][:2])
        out = core.unhx(f['out'])
        if out.endswith(b'\n') != text.endswith('\n'):
            return 'final newline not preserved'
        return None
    w.add('mdoc yaml %s %s' % (hx(text), docs.any_matcher([ypath], ph)), ('yaml-only-target-replaced', oracle))
    return w


YDOC = ('user:\n  name: mock-user\n  info:\n    email: mock-email\n    tags:\n      - a\n      - b\n'
        'date: 16/10/2022\nlist:\n  - x: 1\n    y: 2\n  - z\n')
YVAL = {'user': {'name': 'mock-user', 'info': {'email': 'mock-email', 'tags': ['a', 'b']}}, 'date': '16/10/2022', 'list': [{'x': 1, 'y': 2}, 'z']}
# several paths at different depths in ONE matcher, scalar and non-scalar placeholders
YCASES = [
    (['$.user.info.email', '$.date'], {'k': 1.0, 'l': [1.0, 2.0]}, [('user.info.email',), ('date',)]),
    (['$.user.info.tags[1]', '$.list[0].x', '$.date'], ['p', 'q'], [('user.info.tags.1',), ('list.0.x',), ('date',)]),
    (['$.date', '$.list[0].y', '$.user.name', '$.user.info.tags[0]'], '<Any value>', [('date',), ('list.0.y',), ('user.name',), ('user.info.tags.0',)]),
    (['$.user.name', '$.user.info.email'], 'x', [('user.name',), ('user.info.email',)]),
]


def yflat(v, path=''):
    out = []
    if isinstance(v, dict):
        out.append((path, '{'))
        for k, x in v.items():
            out += yflat(x, path + '/' + k)
        out.append((path, '}'))
    elif isinstance(v, list):
        out.append((path, '['))
        for i, x in enumerate(v):
            out += yflat(x, path + '/' + str(i))
        out.append((path, ']'))
    elif isinstance(v, bool):
        out.append((path, 'bool:' + str(v).lower()))
    elif isinstance(v, float):
        out.append((path, 'float64:%g' % v))
    elif isinstance(v, int):
        out.append((path, 'uint64:%d' % v))
    else:
        out.append((path, 'string:' + str(v)))
    return out


def yaml_fixed_worlds():
    import copy
    ws = []
    for n, (paths, ph, targets) in enumerate(YCASES):
        want = copy.deepcopy(YVAL)
        for (t,) in targets:
            set_path(want, '/' + t.replace('.', '/'), ph)
        w = World('c15yf-%d' % n)

        def oracle(line, raw, ww, want=want):
            if not raw.startswith('mdoc '):
                return 'the matcher did not return (%s)' % raw[:120]
            f = dict(x.split(':', 1) for x in raw.split(' ')[1].split('|'))
            if f['mut'] != '0':
                return 'the bytes passed by the caller were modified'
            if [e for e in f['errs'].split('+') if e]:
                return 'unexpected matcher error'
            fa = parse_flat(f['fa'])
            if fa != yflat(want):
                return 'YAML output is not the input with exactly the targeted values replaced: %r' % [(a, b) for a, b in zip(fa, yflat(want)) if a != b][:3]
            return None
        w.add('mdoc yaml %s %s' % (hx(YDOC), docs.any_matcher(paths, json.dumps(ph))), ('yaml-multi-path-replaced', oracle))
        ws.append(w)
    return ws


def run(ctx):
    g = Gen(ctx.seed * 1000003 + 15)
    n = 400 if ctx.tier == 'quick' else 12000
    worlds = [make_world(g, 'c15-%d' % i) for i in range(n)]
    worlds += [yaml_world(g, 'c15y-%d' % i) for i in range(n // 4)]
    worlds += yaml_fixed_worlds()
    run_suite(ctx, 'matchers.direct', worlds, known=known, use_model=False, chunk=1000)
    findings.report(ctx, 'C15')
