"""Worlds for the Clean family (C07-C10): a directory prepared with fsput (entries of the tests
that will run, stale entries at any position, stale files, decoys), one process that runs the
tests `count` times, then Clean; plus the oracles, computed from the world description.

Round-3 strengthening: directory names with glob metacharacters / blanks / `%` / non-ASCII (ODD_DIRS,
plus the directory a pattern-reading of the name would match), Filename options containing `.snap`
(SNAPPY_NAMES), files ENDING in an unterminated entry or junk (spec['ends'], END_SHAPES; several such
files per run, a later file rewritten), files larger than the scanner's 4 KiB window with multi-line
bodies that are really rewritten (big_calls, big_specs)."""
import re, posixpath
import core
from core import World, parse_fs, Line, hx
from gen import Gen, mode_line, cfg_line
import suites, docs
from suites import parse_snap, parse_snap_scan, esc, exp_silent


def frame(tid, body):
    return b'\n[' + tid + b']\n' + body + b'\n---\n'


def natural_key(s):
    """reference natural order for ids made of letters, '/', ' - ' and short digit runs"""
    parts = re.split(rb'(\d+)', s)
    return [(0, int(p)) if p.isdigit() else (1, p) for p in parts]


def nat_less(a, b):
    """port of maruel/natural.Less (v1.1.1)"""
    def digits(s):
        i = 0
        while i < len(s) and 48 <= s[i] <= 57:
            i += 1
        return i
    while True:
        m = min(len(a), len(b))
        p = 0
        while p < m and not (48 <= a[p] <= 57 or 48 <= b[p] <= 57 or a[p] != b[p]):
            p += 1
        a, b = a[p:], b[p:]
        if len(a) == 0:
            return len(b) != 0
        ia, ib = digits(a), digits(b)
        if ia > 0 and ib > 0:
            an, bn = int(a[:ia]), int(b[:ib])
            if an < 2 ** 64 and bn < 2 ** 64:
                if an != bn:
                    return an < bn
                if ia != len(a) and ib != len(b):
                    a, b = a[ia:], b[ib:]
                    continue
        return a < b


def nat_total(ids):
    """is the comparator used by Clean a strict total order on these ids (pairwise comparable)?"""
    ids = list(set(ids))
    return all(nat_less(x, y) != nat_less(y, x) for i, x in enumerate(ids) for y in ids[i + 1:])


# Directory names as users (and their tools) really have them: glob metacharacters (`[`, `]`, `*`, `?`,
# `\`), blanks, tabs, `%`, `+`, `#`, `~`, `$`, quotes, non-ASCII - anywhere in the path, not only in the
# last element.  Clean must list a directory by its NAME, whatever characters that name is made of.
ODD_DIRS = ['sn[a]ps', '[work]/svc/__snapshots__', 'snaps[', 'sn]aps', 'sn*ps', 'snaps*', 'sn?ps', '?', 'back\\slash/snaps',
            'tail\\', 'a b/__snapshots__', ' lead', '100%/snaps', '%d', 'sn%20aps', 'caf\u00e9/\u00fcn\u00efcode', '\u65e5\u672c',
            'sn{a,b}ps', 'snaps!(x)', 'a+b', '#hash', '~tilde', "quo'te", 'dq"uote', '$HOME', 'x;y', '-dash', 'dot.', '..dots',
            'tab\there', '[!a]', '[a-z]naps', '\\[x\\]', '**', 'a*/b?/c[d]']


def glob_sibling(d):
    """a DIFFERENT directory name that the path `d`, misread as a glob pattern, matches (None if there
    is none): a listing that interprets the name instead of using it would visit this one too"""
    out, i, changed = '', 0, False
    while i < len(d):
        c = d[i]
        if c == '*':
            out += 'xx'
            changed = True
        elif c == '?':
            out += 'x'
            changed = True
        elif c == '\\' and i + 1 < len(d) and d[i + 1] != '/':
            out += d[i + 1]
            i += 1
            changed = True
        elif c == '[':
            j = d.find(']', i + 2)
            if j < 0 or '/' in d[i:j]:
                return None         # a bad pattern matches nothing
            cls = d[i + 1:j]
            if cls[0] in '!^' or '-' in cls or '\\' in cls:
                return None
            out += cls[0]
            i = j
            changed = True
        else:
            out += c
        i += 1
    return out if changed and out != d else None


# File names (the Filename option) that contain `.snap` themselves: the snapshot file of
# `api.snapshot_test.go` is `api.snapshot_test.snap`
SNAPPY_NAMES = ['api.snapshot_test', 'foo.snap_test', 'x.snap', 'my.snapper_case', '.snap_hidden_test']

# What a file can END with after an interrupted write, a merge conflict or a hand edit: an entry
# without its terminator (with and without a final newline), a header alone, a padded or longer
# terminator, stray terminators, blank lines.  (kind, bytes with the placeholder ID)
END_SHAPES = [b'\n[ID]\nleft over', b'\n[ID]\nleft over\n', b'\n[ID]\nfirst line\nsecond line\n\n', b'\n[ID]', b'\n[ID]\n',
              b'\n[ID]\nleft over\n--- \n', b'\n[ID]\nleft over\n----\n', b'\n[ID]\nleft over\n--', b'\n[ID]\n\n\n\n',
              b'\n[ID]\nx\n[TestGhost - 7]\nresidue\n', b'\n[ID]\n/-/-/-/\n', b'[ID]\nno blank line before the header',
              b'\n[ID]\n' + b'long unterminated body line %d\n' * 3 % (1, 2, 3)]
JUNK_ENDS = [b'\n\n\n', b'garbage without header\n', b'\n<<<<<<< HEAD\n', b'\n[Test - ', b'\n[note]\ntext\n', b' ']


def big_calls(g, cfgno, target, shape):
    """calls of ONE test whose prepared entries add up to about `target` bytes.  shape: 'lines' = many
    entries with multi-line bodies of short lines (entries straddle every buffer boundary of a reader
    that works through a 4 KiB window), 'mixed' = line lengths from 0 to 300, 'few' = a few entries
    of several KiB each"""
    r = g.r
    calls, size, k = [], 0, 0
    while size < target:
        k += 1
        if shape == 'few':
            nl = r.randint(60, 200)
        else:
            nl = r.choice([2, 3, 5, 8, 13, 21])
        if shape == 'mixed':
            ls = [b'%d.%d ' % (k, j) + bytes([97 + (k + j) % 26]) * r.choice([0, 1, 7, 30, 64, 120, 300]) for j in range(nl)]
        else:
            ls = [b'entry %d line %d %s' % (k, j, bytes([97 + (k * 7 + j) % 26]) * ((k * 3 + j * 5) % 37)) for j in range(nl)]
        if r.random() < 0.2:
            ls.insert(r.randint(0, len(ls)), r.choice([b'', b'---', b'--- x', b'[TestNope - 1]', b'/-/-/-/']))
        v = b'\n'.join(ls)
        calls.append((cfgno, v))
        size += len(v) + 30
    return calls


def make_spec(g, allow=()):
    r = g.r
    # (names testing can produce that do not start with `Test`: fuzz targets, benchmarks, examples - since the
    # repair of D11 Clean recognises their headers like any other)
    names = g.names(r.randint(1, 4), tuple(allow) + ('unrec', 'pct'))
    stale_names = [n for n in [b'TestGone', b'TestGone/sub', b'TestA/x/old', b'TestOld1', b'TestOld10', b'TestB/gone'] if n not in names]
    r.shuffle(stale_names)
    # the Dir option as the user wrote it: not always in shortest form
    sd = r.choice(['snaps', 'snaps', 'snaps/', './snaps', 'snaps/.', 'x/../snaps', '.snapshots', 'my.snap.d'])
    if r.random() < 0.3:
        sd = r.choice(ODD_DIRS)
    files = [(sd, None, None), (r.choice(['snaps', sd, sd]), r.choice(['custom', 'custom', 'custom'] + SNAPPY_NAMES), None),
             (r.choice(['other/dir', 'other//dir/', 'other/' + r.choice(ODD_DIRS)]), None, '.txt')]
    nfiles = r.choice([2, 2, 3]) if 'ends' in allow else r.choice([1, 1, 2, 3])
    # (a Config may carry Update(true): an option of the Match* calls made through it - what Clean may delete is decided
    # by CI / UPDATE_SNAPS alone)
    cfgs = [cfg_line(i + 1, *files[i], r.choice(['none', 'none', 'true'])) for i in range(nfiles)]
    tests = []
    for n in names:
        calls = []
        for _ in range(r.choice([1, 1, 2, 3, 11 if 'many' in allow else 2, 60 if 'big' in allow else 1])):
            cfgno = r.randint(1, nfiles)
            v = g.body((), ())
            # header-looking lines of tests that do not exist are harmless for Match* and are a
            # challenge for Clean's scanner
            if r.random() < 0.15:
                v = v + b'\n[TestNope - 1]\n---\n[TestNope - 2]'
            calls.append((cfgno, v))
        tests.append((n, calls))
    if 'big' in allow:
        # one test owns a file that is larger than the 4 KiB window Clean's scanner reads through
        # (just above 4 KiB, 8 KiB, 20 KiB; 64 KiB+ in the thorough tier): many multi-line entries
        n, calls = tests[r.randrange(len(tests))]
        calls += big_calls(g, r.randint(1, nfiles), r.choice([4200, 4200, 8300, 8300, 20000] + ([70000, 140000] if 'huge' in allow else [])),
                           r.choice(['lines', 'lines', 'mixed', 'few']))
    stale = []
    for sn in stale_names[:r.choice([0, 0, 1, 2, 3])]:
        body = g.body((), ())
        if r.random() < 0.3:
            # a terminator-LIKE line (longer than ---) followed by a header-looking line: pruning must
            # skip up to the real terminator, or the residue is parsed as an entry of its own
            body = b'old\n' + r.choice([b'--- a/file', b'----', b'--- ']) + b'\n[TestGhost - 7]\nresidue'
        stale.append((r.randint(1, nfiles), sn + b' - ' + str(r.choice([1, 1, 2, 12])).encode(), body))
    # stale slots of a *live* test: ordinals beyond what it addresses now (n+1, 2n, n+5)
    for n, calls in tests:
        if calls and r.random() < 0.3:
            cfgno = calls[0][0]
            nn = sum(1 for c, _ in calls if c == cfgno)
            stale.append((cfgno, n + b' - ' + str(r.choice([nn + 1, 2 * nn, nn + 5, 3 * nn])).encode(), g.body((), ())))
    # a test addressing two files with different numbers of calls: ordinals addressed in one file are
    # stale in the other (the per-file registries must not be merged)
    if nfiles > 1:
        for n, calls in tests:
            per_cfg = {}
            for c, _ in calls:
                per_cfg[c] = per_cfg.get(c, 0) + 1
            if len(per_cfg) > 1 and r.random() < 0.6:
                hi = max(per_cfg, key=per_cfg.get)
                lo = min(per_cfg, key=per_cfg.get)
                if per_cfg[hi] > per_cfg[lo]:
                    stale.append((lo, n + b' - ' + str(per_cfg[hi]).encode(), g.body((), ())))
    # a test whose snapshots moved to another file: its old slots, with the same ids, are stale in
    # the file it no longer addresses (state shared between files would resurrect or corrupt them)
    if nfiles > 1:
        for n, calls in tests:
            if calls and r.random() < 0.5:
                used = set(c for c, _ in calls)
                others = [c for c in range(1, nfiles + 1) if c not in used]
                if others:
                    cfgno = r.choice(others)
                    for k in range(1, r.randint(1, 2) + 1):
                        stale.append((cfgno, n + b' - ' + str(k).encode(), g.body((), ())))
    # a prepared file holds every id at most once
    seen, uniq = set(), []
    live = set()
    for n, calls in tests:
        k = {}
        for c, _ in calls:
            k[c] = k.get(c, 0) + 1
            live.add((c, n + b' - ' + str(k[c]).encode()))
    for cfgno, sid, body in stale:
        if (cfgno, sid) not in seen and (cfgno, sid) not in live:
            seen.add((cfgno, sid))
            uniq.append((cfgno, sid, body))
    stale = uniq
    # tests that call snaps.Skip instead of running: their prepared entries are protected exactly like
    # addressed ones.  (Only tests without descendants or stale slots of their own, and only when
    # every file they use is also addressed by a test that runs: otherwise known findings D6/D8 apply.)
    skipped = []
    if r.random() < 0.4:
        for n, calls in tests:
            if not calls or r.random() < 0.4:
                continue
            if any(o != n and o.startswith(n + b'/') for o, _ in tests):
                continue
            if any(sid.startswith(n + b'/') or sid.startswith(n + b' - ') for _, sid, _ in stale):
                continue
            running = [(o, oc) for o, oc in tests if o != n and o not in skipped]
            if all(any(c2 == c for _, oc in running for c2, _ in oc) for c in set(c for c, _ in calls)):
                skipped.append(n)
    # files that END badly (see END_SHAPES).  The unterminated entry at the end belongs to a test that
    # is gone (Clean reports it; outside the deleting modes it reads its lines like any kept entry's)
    # or to a test that called snaps.Skip (protected in every mode); or the end is junk without header.
    ends = []
    if r.random() < (0.6 if 'ends' in allow else 0.2):
        gone = [n for n in [b'TestUnfinished', b'TestA/x/cut', b'TestZ9'] if n not in names]
        for cfgno in range(1, nfiles + 1):
            if r.random() < 0.6:
                k = r.random()
                if k < 0.2:
                    ends.append((cfgno, 'junk', None, r.choice(JUNK_ENDS)))
                elif k < 0.5 and any(s_ for s_ in skipped if any(c == cfgno for c, _ in dict(tests)[s_])):
                    owner = r.choice([s_ for s_ in skipped if any(c == cfgno for c, _ in dict(tests)[s_])])
                    sid = owner + b' - ' + str(sum(1 for c, _ in dict(tests)[owner] if c == cfgno) + r.choice([1, 1, 6])).encode()
                    ends.append((cfgno, 'skip', sid, r.choice(END_SHAPES).replace(b'ID', sid)))
                elif gone:
                    sid = r.choice(gone) + b' - ' + str(r.choice([1, 2, 10])).encode()
                    ends.append((cfgno, 'stale', sid, r.choice(END_SHAPES).replace(b'ID', sid)))
    # a test whose snapshot was never written (a Config with Update(false), or CI): the call is registered, fails
    # with "snapshot not found" and creates nothing, so Clean meets a REGISTERED file that does not exist - in a
    # directory that does not exist either, or next to the other files
    # standalone snapshots of some tests next to the multi-entry file of cfg 1 (which has neither Filename nor Ext):
    # every execution addresses <name>_1.snap, <name>_2.snap ... again; Clean must find them registered - also
    # when the name contains a `%` (the path is a format for the ordinal only)
    sa = {}
    for n, calls in tests:
        if calls and r.random() < 0.3:
            sa[n] = [b'standalone %d of ' % k + n for k in range(1, r.randint(1, 2) + 1)]
    # one call of some test is a MatchJSON call whose input is not valid JSON (or whose matcher fails): it reports
    # a failure and still is the test's k-th call - its slot [N - k] is addressed, and so are the slots after it
    badcall = set()
    for n, calls in tests:
        if calls and r.random() < 0.15:
            badcall.add((n, r.randrange(len(calls))))
    fresh = None
    if b'TestFresh' not in names and r.random() < 0.2:
        fresh = (r.choice(['fresh/dir', sd]), 'neverwritten', r.choice([1, 2]))
    # the prepared files as a checkout with core.autocrlf leaves them (CR LF / mixed line endings), or
    # hand-edited: extra blank lines, notes and merge-conflict markers between the entries.  The
    # recognised entries then take FEWER bytes than the file does
    k = r.random()
    crlf = r.choice(suites.CRLF_MODES) if k < 0.15 and not ends else None
    gaps = 0.15 <= k < 0.27 and not ends
    mode_ = r.choice([(False, ''), (False, 'clean'), (False, 'true'), (True, 'clean'), (False, 'other')])
    holes = []
    if mode_[0] and r.random() < 0.6 and not ends and not skipped:
        for n, calls in tests:
            cnt = {}
            for c, _ in calls:
                cnt[c] = cnt.get(c, 0) + 1
            for c, m in cnt.items():
                if m >= 2 and r.random() < 0.5:
                    holes.append((n, c, r.randint(1, m - 1)))
    stale_files = r.sample(['old_test.snap', 'x.snapshot', 'gone_1.snap', 'a.snap.json'], r.choice([0, 0, 1, 2]))
    ascii_skipped = [n for n in skipped if all(32 < b < 127 and b != 37 for b in n)]
    if ascii_skipped and r.random() < 0.6:
        # a stale standalone snapshot of some OTHER test whose name merely starts with a skipped test's name
        # (`TestUser` is skipped, `TestUser_profile` is gone): it is stale like any other left-over file
        stale_files.append(r.choice(ascii_skipped).decode().replace('/', '_') + r.choice(['_profile_2.snap', 'Extra_1.snap', '_1.snap.bak.snap']))
    return dict(cfgs=cfgs, nfiles=nfiles, tests=tests, stale=stale, skipped=skipped, ends=ends, fresh=fresh, sa=sa, badcall=sorted(badcall), crlf=crlf, gaps=gaps,
                count=r.choice([1, 1, 2, 3]), shuffle=r.randrange(1 << 30),
                stale_files=stale_files,
                decoys=r.random() < 0.6,
                mode=mode_, holes=holes,
                sort=r.choice(['-', '1', '1', '1'] if ('ends' in allow or 'big' in allow) else ['-', '0', '1', '1']), flags=set())


# lines found between the entries of hand-edited files; none starts with `[` or equals `---`
GAP_LINES = [b'', b'', b'   ', b'# hand-edited note', b'free text', b'<<<<<<< HEAD', b'=======', b'>>>>>>> feature/branch', b'\t', b'--', b'TestA - 1]']


def parser_of(w):
    """how the oracles read a multi-entry file of this world: byte-exact framing for files the
    library wrote itself; as the line scanner sees them (CR dropped, free lines between entries
    skipped) for files with other line endings / hand-edited spacing"""
    spec = getattr(w, 'spec', None) or {}
    if spec.get('crlf') or spec.get('gaps'):
        return lambda c: parse_snap_scan(c, loose=bool(spec.get('gaps')))
    return parse_snap


def suffix_of(cfgline):
    t = cfgline.split()
    d = posixpath.normpath(core.unhx(t[2]).decode())
    fn = core.unhx(t[3]).decode() if t[3] != '-' else 'zz_verif_harness_test'
    ext = core.unhx(t[4]).decode() if t[4] != '-' else ''
    return '%s/%s.snap%s' % (d, fn, ext)


def layout(spec):
    """per file: list of (id, stored body, live?) in the order it is written"""
    import random
    rr = random.Random(spec['shuffle'])
    per = {i + 1: [] for i in range(spec['nfiles'])}
    for n, calls in spec['tests']:
        k = {}
        for cfgno, v in calls:
            k[cfgno] = k.get(cfgno, 0) + 1
            if (n, cfgno, k[cfgno]) in spec.get('holes', ()):
                # this slot is missing from the prepared file (lost in a merge) in a run that may not create it: the
                # call fails with `snapshot not found` - the test's LATER slots are addressed all the same
                continue
            per[cfgno].append((n + b' - ' + str(k[cfgno]).encode(), esc(v), True))
    tails = {}
    for cfgno, sid, body in spec['stale']:
        if cfgno in per:
            live_ids = [i for i, _, l in per[cfgno] if l]
            if body.startswith(b'old\n---') and live_ids and rr.random() < 0.5:
                # the residue after the terminator-like line names a LIVE slot; the stale entry sits at
                # the end of the file, so lookups of the live slot are not affected
                body = body.replace(b'[TestGhost - 7]', b'[' + rr.choice(live_ids) + b']')
                tails.setdefault(cfgno, []).append((sid, esc(body), False))
            else:
                per[cfgno].append((sid, esc(body), False))
    for cfgno in per:
        forced = (spec.get('order') or {}).get(cfgno)
        if isinstance(forced, (list, tuple)):
            # the file is written in exactly this order of ids
            per[cfgno].sort(key=lambda e: list(forced).index(e[0]))
            per[cfgno] += tails.get(cfgno, [])
            continue
        if forced:
            per[cfgno].sort(key=lambda e: natural_key(e[0]), reverse=(forced == 'reverse'))
            if forced == 'stale-first':
                per[cfgno].sort(key=lambda e: e[2])
            per[cfgno] += tails.get(cfgno, [])
            continue
        if spec.get('shuffle') == 4 and len(per[cfgno]) > 60:
            # the deterministic big file: stale entries at positions 1 and 40
            live_ = [e for e in per[cfgno] if e[2]]
            st_ = [e for e in per[cfgno] if not e[2]]
            per[cfgno] = live_[:1] + st_[:1] + live_[1:40] + st_[1:] + live_[40:]
            continue
        if rr.random() < 0.6:
            rr.shuffle(per[cfgno])
        else:
            per[cfgno].sort(key=lambda e: natural_key(e[0]))
        per[cfgno] += tails.get(cfgno, [])
    return per


def render(tag, spec, oracles):
    w = World(tag)
    w.spec = spec
    w.render = lambda t, s: render(t, s, oracles)
    w.flags |= spec['flags']
    ci, upd = spec['mode']
    w.add(mode_line(ci, upd))
    for c in spec['cfgs']:
        w.add(c)
    if spec.get('fresh'):
        w.add(cfg_line(spec['nfiles'] + 1, spec['fresh'][0], spec['fresh'][1], None, 'false'))
    per = layout(spec)
    ends = {c: (kind, sid, raw) for c, kind, sid, raw in spec.get('ends', ())}
    if spec.get('crlf'):
        w.flags.add('crlf-file')
    if spec.get('gaps'):
        w.flags.add('gaps-file')
    for cfgno, entries in per.items():
        if entries:
            content = b''.join(frame(i, b) for i, b, _ in entries)
            if spec.get('gaps'):
                import random
                rg = random.Random(spec['shuffle'] * 7 + cfgno)
                content = b''.join(b''.join(l + b'\n' for l in rg.sample(GAP_LINES, rg.randint(0, 3))) + frame(i, b) for i, b, _ in entries)
                content += b''.join(l + b'\n' for l in rg.sample(GAP_LINES, rg.randint(0, 2)))
            if cfgno in ends:
                content += ends[cfgno][2]
            w.add('fsput %s %s' % (hx(suffix_of(spec['cfgs'][cfgno - 1])), hx(content)))
            if spec.get('crlf'):
                w.add('fscrlf %s %s' % (spec['crlf'], hx(suffix_of(spec['cfgs'][cfgno - 1]))))
    w.meta['ends'] = {c: e for c, e in ends.items() if per.get(c)}
    alldirs = sorted(set(suffix_of(c).rsplit('/', 1)[0] for cfgno, c in enumerate(spec['cfgs'], 1) if per[cfgno]))
    # directories Clean visits: those of files some call addresses
    dirs = sorted(set(suffix_of(c).rsplit('/', 1)[0] for cfgno, c in enumerate(spec['cfgs'], 1)
                      if any(l for _, _, l in per[cfgno])))
    sa_files = {}
    d1 = suffix_of(spec['cfgs'][0]).rsplit('/', 1)[0]
    for n, vals in (spec.get('sa') or {}).items():
        if n in spec.get('skipped', ()):
            continue
        for k, v in enumerate(vals, 1):
            rel = d1.encode() + b'/' + n.replace(b'/', b'_') + b'_%d.snap' % k
            sa_files[rel] = v
            w.add('fsput %s %s' % (hx(rel), hx(v)))
    w.meta['sa_files'] = sa_files
    if sa_files and d1 not in dirs:
        dirs = sorted(dirs + [d1])
    if spec.get('fresh'):
        # the directory of the never-written (but registered) file is visited by Clean like any addressed one
        fd = posixpath.normpath(spec['fresh'][0])
        if fd not in dirs and any(posixpath.normpath(suffix_of(c).rsplit('/', 1)[0]) == fd for c in spec['cfgs']):
            dirs = sorted(dirs + [fd])
    for sf in spec['stale_files']:
        if dirs:
            w.add('fsput %s %s' % (hx(dirs[0] + '/' + sf), hx(frame(b'TestElsewhere - 1', b'z'))))
            if sf.endswith('.snap') and spec['shuffle'] % 2:
                # the test file the snapshots came from still exists but no longer declares any function
                w.add('fsput %s %s' % (hx(posixpath.normpath(dirs[0] + '/../' + sf[:-5] + '.go')), hx('package x\n\nvar fixtures = []string{"a"}\n')))
    if spec['decoys'] and dirs:
        w.add('fsput %s %s' % (hx(dirs[0] + '/notes.txt'), hx(b'keep me')))
        w.add('fsput %s %s' % (hx(dirs[0] + '/sub/inner.snap'), hx(frame(b'TestInner - 1', b'i'))))
        w.add('fsput %s %s' % (hx('unvisited/lonely.snap'), hx(frame(b'TestLonely - 1', b'l'))))
        # a directory that a visited directory's path, misread as a PATTERN, would match: nobody addressed
        # it, so it is not visited
        for d in dirs:
            sib = glob_sibling(d)
            if sib and sib not in alldirs:
                w.add('fsput %s %s' % (hx(sib + '/zz_verif_harness_test.snap'), hx(frame(b'TestSibling - 1', b's'))))
                w.add('fsput %s %s' % (hx(sib + '/sibling_test.snap'), hx(frame(b'TestSibling - 1', b's'))))
    texec = 0
    for rep in range(spec['count']):
        for n, calls in spec['tests']:
            texec += 1
            w.add('begin %d %s' % (texec, hx(n)))
            if n in spec.get('skipped', ()):
                w.add('skip %d %s' % (texec, ['skip', 'skipf', 'skipnow'][(texec + spec['shuffle']) % 3]))
                continue
            bad = set(tuple(x) for x in spec.get('badcall', ()))
            holes_ = set(tuple(x) for x in spec.get('holes', ()))
            kk = {}
            for j, (cfgno, v) in enumerate(calls):
                kk[cfgno] = kk.get(cfgno, 0) + 1
                if (n, cfgno, kk[cfgno]) in holes_ and (n, j) not in bad:
                    w.add('snap %d %d %s' % (cfgno, texec, hx(v)), ('missing-slot-fails-without-writing', suites.exp_one_error_no_write))
                    continue
                if (n, j) in bad:
                    op = 'json %d %d s %s' % (cfgno, texec, hx(b'{"not json":')) if (j + texec) % 2 else \
                         'json %d %d s %s %s' % (cfgno, texec, hx(b'{"a":1}'), docs.any_matcher(['zz_missing_zz']))
                    w.add(op, ('rejected-call-fails-without-writing', suites.exp_one_error_no_write))
                    continue
                w.add('snap %d %d %s' % (cfgno, texec, hx(v)), ('prepared-entry-passes', exp_silent))
            for v in (spec.get('sa') or {}).get(n, ()):
                w.add('sasnap 1 %d %s' % (texec, hx(v)), ('prepared-standalone-file-passes', exp_silent))
            w.add('end %d' % texec)
        if spec.get('fresh'):
            texec += 1
            w.add('begin %d %s' % (texec, hx(b'TestFresh')))
            for k in range(spec['fresh'][2]):
                w.add('snap %d %d %s' % (spec['nfiles'] + 1, texec, hx(b'never recorded %d' % k)), ('missing-snapshot-fails-without-writing', suites.exp_one_error_no_write))
            w.add('end %d' % texec)
    ref = w.add('fsdump')
    w.meta.update(ref=ref, per=per, dirs=dirs)
    ci_ = w.add('clean %s - %d' % (spec['sort'], spec['count']))
    aft = w.add('fsdump')
    w.meta.update(clean=ci_, after=aft)
    c2 = w.add('clean %s - %d' % (spec['sort'], spec['count']))
    aft2 = w.add('fsdump')
    w.meta.update(clean2=c2, after2=aft2)
    for name, fn in oracles:
        w.expect.setdefault(aft2, None)
    if oracles:
        def combined(line, raw, ww):
            for name, fn in oracles:
                m = fn(ww)
                if m:
                    ww.meta['failed_oracle'] = name
                    return name + ': ' + m
            return None
        w.expect[aft2] = ('+'.join(n for n, _ in oracles), combined)
    return w


def parse_snap_prefix(content):
    """the longest well-formed prefix of a file as [(id, body)], and the bytes that follow it"""
    ls = content.split(b'\n')
    out, i, off = [], 0, 0
    while i + 1 < len(ls):
        hdr = ls[i + 1]
        if ls[i] != b'' or not (hdr.startswith(b'[') and hdr.endswith(b']')):
            break
        j = i + 2
        while j < len(ls) and ls[j] != b'---':
            j += 1
        if j >= len(ls) - 1:        # no terminator LINE (a line is followed by a newline)
            break
        out.append((hdr[1:-1], b'\n'.join(ls[i + 2:j])))
        off += sum(len(l) + 1 for l in ls[i:j + 1])
        i = j + 1
    return out, content[off:]


def entries_in(w, cfgno, content):
    """entries of a file of the world: files prepared with a bad END (spec['ends']) are read up to
    where they stop being well formed - the oracles speak about their well-formed entries only, the fate
    of the unterminated rest is compared with the model's prediction; every other file must be well
    formed as a whole"""
    if cfgno in w.meta.get('ends', {}):
        return parse_snap_prefix(content)[0]
    return parser_of(w)(content)


def end_id(w, cfgno):
    """id of the unterminated entry a file of the world ends with, if it ends with one"""
    e = w.meta.get('ends', {}).get(cfgno)
    return e[1] if e and e[1] is not None else None


def file_of(w, cfgno, dump):
    suf = ('/' + suffix_of(w.spec['cfgs'][cfgno - 1])).encode()
    hit = [p for p in dump if p.endswith(suf)]
    # (every path lies under the world's root: the file itself is the shortest path with this suffix)
    return min(hit, key=len) if hit else None


def deletes(spec):
    ci, upd = spec['mode']
    return (not ci) and upd in ('true', 'clean')


def sorts(spec):
    ci, upd = spec['mode']
    return (not ci) and spec['sort'] == '1'


# ---------------------------------------------------------------- oracles (take the finished world)

def o_matched_kept(w):
    """C07: every slot addressed in this process keeps its value, is not listed obsolete"""
    before, after = parse_fs(w.impl[w.meta['ref']]), parse_fs(w.impl[w.meta['after']])
    out = Line(w.impl[w.meta['clean']]).out
    for cfgno, entries in w.meta['per'].items():
        if not any(live for _, _, live in entries):
            continue        # no call addressed this file in this process
        p = file_of(w, cfgno, before)
        if p not in after:
            return 'addressed file %r was deleted' % p
        ea = entries_in(w, cfgno, after[p])
        if ea is None:
            return 'addressed file %r is not well formed after Clean' % p
        da = dict(ea)
        for tid, body, live in entries:
            if live:
                if da.get(tid) != body:
                    return 'matched entry [%s] %s' % (tid.decode('utf-8', 'replace'), 'was dropped' if tid not in da else 'changed its stored value')
                # the summary lists ids without their file: an identical id that is stale in
                # another file makes the line ambiguous
                stale_elsewhere = any(t2 == tid and not l2 for es in w.meta['per'].values() for t2, _, l2 in es)
                if not stale_elsewhere and ('• ' + tid.decode('utf-8', 'replace') + '\n').encode() in out:
                    return 'matched entry [%s] listed as obsolete' % tid.decode('utf-8', 'replace')
    return None


def o_stale_reported(w):
    """C09: every stale entry / stale file reported; removed iff deleting mode; decoys untouched"""
    spec = w.spec
    before, after = parse_fs(w.impl[w.meta['ref']]), parse_fs(w.impl[w.meta['after']])
    out = Line(w.impl[w.meta['clean']]).out
    dele = deletes(spec)
    for cfgno, entries in w.meta['per'].items():
        p = file_of(w, cfgno, before)
        if p is None or not any(live for _, _, live in entries):
            continue        # a file no call addressed is a stale *file* (checked below)
        ea = entries_in(w, cfgno, after.get(p, b''))
        ids_after = [e[0] for e in (ea or [])]
        for tid, body, live in entries:
            if not live:
                if ('• ' + tid.decode('utf-8', 'replace') + '\n').encode() not in out:
                    return 'stale entry [%s] not reported' % tid.decode('utf-8', 'replace')
                if dele and tid in ids_after:
                    return 'stale entry [%s] survives in clean mode' % tid.decode()
                if not dele and tid not in ids_after:
                    return 'stale entry [%s] removed although the mode does not allow deletion' % tid.decode()
    for cfgno, entries in w.meta['per'].items():
        p = file_of(w, cfgno, before)
        if p is None or not any(live for _, _, live in entries) or any(not live for _, _, live in entries):
            continue
        if cfgno in w.meta.get('ends', {}) and w.meta['ends'][cfgno][0] == 'stale':
            continue
        if not sorts(spec) and after.get(p) != before[p]:
            # nothing in this file is obsolete and no sorting was asked for: whatever it holds besides its entries
            # (a note, blank lines) was not reported, so it may not be removed
            return 'addressed file %r holds nothing obsolete and needs no sorting, but its bytes changed' % p
    import re as _re
    stale_ids = set(t for es in w.meta['per'].values() for t, _, l in es if not l)
    # an unterminated last entry of a test that is gone may be listed too
    stale_ids |= set(sid for c, (kind, sid, _) in w.meta.get('ends', {}).items() if kind == 'stale')
    listed = [m.group(1) for m in _re.finditer(rb'\xe2\x80\xa2 (Test[^\n]* - \d+)\n', out)]
    extra = [t for t in listed if t not in stale_ids]
    if extra:
        return 'the summary lists %r as obsolete, which is not a stale entry of any file' % extra[:3]
    # the world's root directory (every path of the dump lies under it)
    root = None
    for c in w.meta['per']:
        fp = file_of(w, c, before)
        if fp:
            root = fp[:-len(('/' + suffix_of(spec['cfgs'][c - 1])).encode())]
            break
    for p in before:
        base = p.rsplit(b'/', 1)[1]
        d = p.rsplit(b'/', 1)[0]
        visited = any(d == root + ('/' + x).encode() for x in w.meta['dirs']) if root is not None else False
        addressed = any(file_of(w, c, before) == p for c in w.meta['per'] if any(l for _, _, l in w.meta['per'][c]))
        if addressed:
            continue
        sa_hit = [rel for rel in w.meta.get('sa_files', {}) if root is not None and p == root + b'/' + rel]
        if sa_hit:
            if p not in after or after[p] != before[p]:
                return 'standalone file %r, matched in this run, was %s' % (base, 'removed' if p not in after else 'changed')
            if p in out:
                return 'standalone file %r, matched in this run, is listed as obsolete' % base
            continue
        if visited and b'.snap' in base:
            if p not in out:
                return 'stale file %r not reported' % p
            if (p in after) == dele:
                return 'stale file %r %s (deleting mode=%s)' % (p, 'kept' if p in after else 'removed', dele)
        else:
            if after.get(p) != before[p]:
                return 'unrelated file %r was touched' % p
    return None


def o_rewrite_preserves(w):
    """C10: surviving entries keep their values, no duplicates, sorted when asked, untouched
    when nothing to do, and a second Clean changes nothing"""
    spec = w.spec
    before, after, after2 = (parse_fs(w.impl[w.meta[k]]) for k in ('ref', 'after', 'after2'))
    dele, srt = deletes(spec), sorts(spec)
    for cfgno, entries in w.meta['per'].items():
        p = file_of(w, cfgno, before)
        if p is None or p not in after or not any(live for _, _, live in entries):
            continue
        eb, ea = entries_in(w, cfgno, before[p]), entries_in(w, cfgno, after[p])
        if ea is None:
            return 'file %r not well formed after Clean' % p
        want = [e for e in eb if not (dele and e[0] in [t for t, _, live in entries if not live])]
        # (which entries survive, with which values, does not depend on the order being total)
        if sorted(ea) != sorted(want):
            return 'entries of %r changed: before %r after %r' % (p, [e[0] for e in eb], [e[0] for e in ea])
        if len(set(e[0] for e in ea)) != len(ea):
            return 'duplicate entries after Clean'
        if srt and not nat_total([e[0] for e in eb] + ([end_id(w, cfgno)] if end_id(w, cfgno) else [])):
            continue        # the ORDER clauses only speak about ids on which the natural order is total
        if srt and nat_total([e[0] for e in ea]):
            ids = [e[0] for e in ea]
            import functools
            if ids != sorted(ids, key=functools.cmp_to_key(lambda x, y: -1 if nat_less(x, y) else (1 if nat_less(y, x) else 0))):
                return 'not in natural order after sorting: %r' % ids
        elif [e[0] for e in ea] != [e[0] for e in want]:
            return 'order changed without sorting: %r -> %r' % ([e[0] for e in want], [e[0] for e in ea])
        if ea == eb and after[p] != before[p] and cfgno not in w.meta.get('ends', {}):
            return 'file needing neither pruning nor sorting was rewritten'
    l1 = Line(w.impl[w.meta['clean']])
    for cfgno, entries in w.meta['per'].items():
        p = file_of(w, cfgno, before)
        if p is None or p not in after or not any(live for _, _, live in entries):
            continue
        eb = entries_in(w, cfgno, before[p])
        # (Clean decides on every header it recognises, the one of an unterminated last entry included)
        ids = [e[0] for e in eb] + ([end_id(w, cfgno)] if end_id(w, cfgno) else [])
        has_stale = any(not live for _, _, live in entries) or (cfgno in w.meta.get('ends', {}) and w.meta['ends'][cfgno][0] == 'stale')
        import functools
        already = (not nat_total(ids)) or ids == sorted(ids, key=functools.cmp_to_key(lambda x, y: -1 if nat_less(x, y) else (1 if nat_less(y, x) else 0)))
        if not (dele and has_stale) and (not srt or already) and nat_total(ids) and p in l1.writes:
            return 'file %r needed neither pruning nor sorting but was written' % p
    l2 = Line(w.impl[w.meta['clean2']])
    all_total = all(nat_total([e[0] for e in (entries_in(w, c, before[file_of(w, c, before)]) or [])] + ([end_id(w, c)] if end_id(w, c) else []))
                    for c, es in w.meta['per'].items() if file_of(w, c, before) and any(l for _, _, l in es))
    if (all_total or not srt) and (l2.writes or l2.removed or after2 != after):
        return 'a second Clean changed something: w=%r d=%r' % (l2.writes, l2.removed)
    return None


def big_clean_spec(g, mode=(False, ''), sort='-', lines=1):
    """a used snapshot file of about 11 KiB: 80 entries of one test, an obsolete entry near the top,
    another one in the middle (ids must survive the scanner's buffer refills).  lines > 1: bodies of
    that many lines (about 25 KiB for 12), so that some BODY is being captured at every refill of
    the scanner's 4 KiB window"""
    # (bodies of one to four lines: an entry's lines lie on both sides of a refill of the scanner's window)
    calls = [(1, b'\n'.join(b'value %03d.%d %s' % (k, j, b'v' * ((90 + k % 11) // (1 + k % 4))) for j in range(1 + k % 4))) for k in range(80)]
    if lines > 1:
        calls = [(1, b'\n'.join(b'entry %03d line %02d %s' % (k, j, b'w' * ((k * 5 + j) % 29)) for j in range(lines))) for k in range(60)]
    stale = [(1, b'TestGoneEarly/sub - 1', b'old early'), (1, b'TestGoneMiddle - 3', b'old middle\nsecond line')]
    return dict(cfgs=[cfg_line(1, 'snaps')], nfiles=1, tests=[(b'TestBigClean', calls)], stale=stale, count=1, shuffle=4,
                stale_files=[], decoys=False, mode=mode, sort=sort, flags=set())


def big_specs(g, tier):
    """Used files LARGER than the 4096-byte window Clean's scanner reads through, with multi-line
    bodies, that Clean really REWRITES (reverse order + Sort, or obsolete entries + clean mode): just
    above 4 KiB (one refill), 8 KiB, 20 KiB, 64 KiB+; many small entries, mixed line lengths, few
    entries of several KiB.  Every entry straddling a window boundary must come back unchanged."""
    out = []
    sizes = [(4200, 'lines'), (8300, 'mixed'), (20000, 'lines'), (9000, 'few'), (70000, 'lines')]
    if tier != 'quick':
        sizes += [(4200, 'mixed'), (4200, 'few'), (8300, 'lines'), (70000, 'mixed'), (140000, 'few'), (300000, 'lines')]
    for k, (target, shape) in enumerate(sizes):
        for mode, srt, order in (((False, ''), '1', 'reverse'), ((False, 'clean'), '0', 'stale-first'), ((False, 'clean'), '1', 'reverse')):
            if target >= 70000 and tier == 'quick' and mode != (False, ''):
                continue
            calls = big_calls(g, 1, target, shape)
            stale = [(1, b'TestGoneEarly/sub - 1', b'old early'), (1, b'TestGoneMiddle - 3', b'old middle\nsecond line\n\nfourth')]
            tests = [(b'TestBigClean', calls), (b'TestSmall', [(1, b'small one'), (1, b'small two\nline')])]
            out.append(dict(cfgs=[cfg_line(1, 'snaps')], nfiles=1, tests=tests, stale=stale, count=1, shuffle=5 + k, order={1: order},
                            stale_files=[], decoys=False, mode=mode, sort=srt, flags=set()))
    return out


def ends_specs():
    """Two or three used files, the EARLIER ones (in the order Clean examines them) ending in an entry
    without terminator that Clean keeps reading (a gone test's outside the deleting modes, a skipped
    test's in every mode), a LATER one that Clean rewrites (unsorted + Sort, or obsolete entry + clean
    mode): what was read from one file must never show up in another."""
    out = []
    for vi, (mode, srt) in enumerate([((False, ''), '1'), ((False, 'clean'), '-'), ((False, 'clean'), '1'), ((False, 'true'), '0'),
                                      ((True, ''), '1'), ((False, ''), '-')]):
        for shape_i in (0, 1, 4, 9):
            for layout_i in range(3):
                # layout 0: custom.snap (examined first) ends badly, the default file is rewritten;
                # layout 1: both end badly; layout 2: three files in two directories
                cfgs = [cfg_line(1, 'snaps'), cfg_line(2, 'snaps', 'custom'), cfg_line(3, 'other/dir', None, '.txt')]
                nfiles = 3 if layout_i == 2 else 2
                tests = [(b'TestA', [(2, b'a in custom'), (1, b'a in main\nsecond'), (1, b'a2 in main')]),
                         (b'TestB', [(1, b'b in main'), (2, b'b in custom')]),
                         (b'TestKept', [(2, b'kept in custom')] + ([(1, b'kept in main')] if layout_i == 1 else []))]
                if nfiles == 3:
                    tests[0][1].append((3, b'a in last'))
                    tests[1][1].append((3, b'b in last'))
                stale = [(1, b'TestGone - 1', b'stale main'), (3, b'TestGone - 2', b'stale last')][:nfiles - 1]
                if deletes(dict(mode=mode)):
                    kind, sid = 'skip', b'TestKept - 2'
                else:
                    kind, sid = 'stale', b'TestUnfinished - 1'
                ends = [(2, kind, sid, END_SHAPES[shape_i].replace(b'ID', sid))]
                if layout_i == 1:
                    ends.append((1, kind, sid, END_SHAPES[(shape_i + 2) % len(END_SHAPES)].replace(b'ID', sid)))
                out.append(dict(cfgs=cfgs[:nfiles], nfiles=nfiles, tests=tests, stale=stale, skipped=[b'TestKept'], ends=ends,
                                count=1, shuffle=11 + vi, order={1: 'reverse', 2: 'sorted', 3: 'reverse'},
                                stale_files=[], decoys=False, mode=mode, sort=srt, flags=set()))
    return out


def odd_dir_specs(g):
    """one world per unusual directory name (ODD_DIRS): stale entries in the addressed file, a stale
    file and a stale custom-extension file beside it, decoys (and the directory a pattern-reading of the
    name would match), report mode and clean mode"""
    out = []
    for k, d in enumerate(ODD_DIRS):
        mode = [(False, ''), (False, 'clean')][k % 2]
        tests = [(b'TestA', [(1, b'a one'), (1, b'a two\nlines')]), (b'TestB/sub', [(1, b'b')])]
        stale = [(1, b'TestGone - 1', b'stale'), (1, b'TestA - 3', b'stale ordinal')]
        out.append(dict(cfgs=[cfg_line(1, d)], nfiles=1, tests=tests, stale=stale, count=1, shuffle=21 + k,
                        stale_files=['old_test.snap', 'a.snap.json'], decoys=True, mode=mode, sort=['-', '1'][k % 3 == 0], flags=set()))
    return out


def extra_worlds(prefix, g, tier, oracles):
    ws = [render('%s-big2-%d' % (prefix, k), sp, oracles) for k, sp in enumerate(big_specs(g, tier))]
    ws += [render('%s-ends-%d' % (prefix, k), sp, oracles) for k, sp in enumerate(ends_specs())]
    ws += [render('%s-dir-%d' % (prefix, k), sp, oracles) for k, sp in enumerate(odd_dir_specs(g))]
    return ws


def tie_specs():
    """ids on which maruel/natural is NOT a total order (numbers that differ only by leading zeros
    compare equal both ways) and ids of equal length whose numeric parts have compensating widths
    (`case_9 - 10` / `case_10 - 1`): whatever the order Clean chooses, no addressed entry may be lost,
    merged or duplicated, and where the order is total it must be the natural one."""
    out = []
    zero = [(b'TestZ/v01', [(1, b'z01')]), (b'TestZ/v1', [(1, b'z1'), (1, b'z1 second')]), (b'TestZ/v001', [(1, b'z001')]), (b'TestZ/v2', [(1, b'z2')])]
    nine = [(b'TestN/case_9', [(1, b'nine %d' % k) for k in range(1, 11)]), (b'TestN/case_10', [(1, b'ten 1')]), (b'TestN/case_100', [(1, b'hundred 1')])]
    for tests in (zero, nine):
        for mode, srt in (((False, ''), '1'), ((False, 'clean'), '1'), ((False, 'clean'), '-'), ((True, ''), '1')):
            for sh in (1, 2, 3, 7, 8):
                out.append(dict(cfgs=[cfg_line(1, 'snaps')], nfiles=1, tests=tests, stale=[(1, b'TestGone - 1', b'stale')] if sh % 2 else [],
                                count=1, shuffle=sh, stale_files=[], decoys=False, mode=mode, sort=srt, flags=set()))
    return out


def perm_specs():
    """EVERY arrangement of three live entries and one stale entry in a file (24 orders), the stale id sorting
    before, between or after the live ones, with pruning and sorting in the same pass, sorting alone and pruning
    alone: a single inversion among the survivors must be seen whatever stands between them (an entry that
    is pruned in the same pass must not take part in the "is it sorted already" decision)."""
    import itertools
    out = []
    live = [b'TestBravo', b'TestDelta', b'TestFoxtrot']
    for stale in (b'TestAlpha - 1', b'TestCharlie - 1', b'TestGolf - 1'):
        ids = [n + b' - 1' for n in live] + [stale]
        for order in itertools.permutations(ids):
            for mode, srt in (((False, 'clean'), '1'), ((False, ''), '1'), ((False, 'true'), '-')):
                out.append(dict(cfgs=[cfg_line(1, 'snaps')], nfiles=1, tests=[(n, [(1, b'value of ' + n)]) for n in live],
                                stale=[(1, stale, b'stale body')], count=1, shuffle=1, stale_files=[], decoys=False,
                                mode=mode, sort=srt, flags=set(), order={1: list(order)}))
    return out


def lex_specs():
    """a file whose ids are in LEXICOGRAPHIC order (`T - 1`, `T - 10`, `T - 11`, `T - 2`, … - what `sort` or an editor
    leaves) but not in natural order: with Sort, Clean must put it into natural order (a byte-wise "is it sorted"
    shortcut takes it for sorted)"""
    out = []
    n = 12
    ids = sorted(b'TestLex - %d' % k for k in range(1, n + 1))
    for mode, srt in (((False, ''), '1'), ((False, 'clean'), '1'), ((False, 'true'), '1'), ((False, ''), '-')):
        for stale in ([], [(1, b'TestGone - 1', b'stale')]):
            out.append(dict(cfgs=[cfg_line(1, 'snaps')], nfiles=1, tests=[(b'TestLex', [(1, b'value %d' % k) for k in range(1, n + 1)])],
                            stale=stale, count=1, shuffle=1, stale_files=[], decoys=False, mode=mode, sort=srt, flags=set(),
                            order={1: ids + [s_[1] for s_ in stale]}))
    return out


def eol_specs():
    """files whose recognised entries take fewer bytes than the file: CR LF / mixed line endings,
    or extra lines between the entries; unsorted (shuffle seeds chosen so), with and without a
    stale entry, in every mode x sort combination that can rewrite or must not"""
    out = []
    tests = [(b'TestAlpha', [(1, b'alpha')]), (b'TestBeta', [(1, b'beta one'), (1, b'beta\ntwo\n'), (1, b'---\nthree')]),
             (b'TestGamma/sub', [(1, b'gamma %d' % k) for k in range(1, 4)])]
    for crlf, gaps in (('all', False), ('odd', False), ('even', False), (None, True), ('all', True)):
        for mode, srt in (((False, ''), '1'), ((False, 'clean'), '1'), ((False, 'clean'), '-'), ((False, 'other'), '1'), ((True, 'clean'), '1'), ((False, ''), '-')):
            for sh in (1, 2, 3):
                out.append(dict(cfgs=[cfg_line(1, 'snaps')], nfiles=1, tests=tests, stale=[(1, b'TestGone - 1', b'stale\nbody')] if sh == 2 else [],
                                count=1, shuffle=sh, stale_files=[], decoys=False, mode=mode, sort=srt, flags=set(), crlf=crlf, gaps=gaps))
    return out


def junk_worlds(prefix):
    """Hand-edited files: between well-formed entries there are lines that LOOK like headers but are
    not (`[note]`, `[T - 1a]`, `[ - ]`, `[T - ]x`, `T - 1]`), plain text and blank lines.  Clean must
    treat exactly the lines getTestID accepts as headers.  Correspondence only (model = loop-faithful
    exScan), in every mode, with and without sorting."""
    junk = [b'[note]', b'[TestA - 1a]', b'[ - ]', b'[TestA - ]x', b'TestA - 1]', b'free text', b'', b'[TestA- 1]',
            b'[TestA -1]', b'[TestA - 1] ', b' [TestA - 1]', b'[TestA - 0x1]', b'[]', b'[', b']', b'[TestA - -1]',
            b'[TestA - 1][TestB - 1]', b'[TestA - 1 - 2]', b'[x]y - 3]', b'[TestB/sub[0] - 1x]']
    worlds = []
    for mi, (mode, srt) in enumerate([((False, ''), '-'), ((False, 'clean'), '0'), ((False, ''), '1'), ((False, 'clean'), '1'),
                                      ((True, 'clean'), '1'), ((False, 'true'), '-')]):
        for variant in range(3):
            w = World('%s-junk-%d-%d' % (prefix, mi, variant))
            w.add(mode_line(*mode))
            w.add(cfg_line(1, 'snaps'))
            entries = [(b'TestB - 1', b'b1'), (b'TestA - 2', b'a2'), (b'TestGone - 1', b'gone'), (b'TestA - 1', b'a1')]
            content = b''
            for k, (i, b) in enumerate(entries):
                js = junk[(k * 5 + variant * 7) % len(junk):][:4 + variant]
                content += b'\n'.join(js) + b'\n' + frame(i, b)
            if variant == 2:
                content += b'\n'.join(junk) + b'\n'
            w.add('fsput %s %s' % (hx('snaps/zz_verif_harness_test.snap'), hx(content)))
            w.add('begin 1 ' + hx(b'TestA'))
            w.add('snap 1 1 ' + hx(b'a1'))
            w.add('snap 1 1 ' + hx(b'a2'))
            w.add('end 1')
            w.add('begin 2 ' + hx(b'TestB'))
            w.add('snap 1 2 ' + hx(b'b1'))
            w.add('end 2')
            w.add('clean %s - 1' % srt)
            w.add('fsdump')
            w.add('clean %s - 1' % srt)
            w.add('fsdump')
            worlds.append(w)
    return worlds


def symlink_worlds(prefix):
    """the snapshot directory is reached through a symbolic link (a symlinked checkout, a symlinked
    __snapshots__, macOS /tmp): the Match* calls and Clean name the files by the same unresolved path, so what
    the run matched - a multi-entry file and standalone files - is neither reported nor removed.  No model: its
    file system has no links."""
    worlds = []
    for k, (mode, srt, deep) in enumerate([((False, ''), '-', False), ((False, 'clean'), '-', False), ((False, 'clean'), '1', True),
                                           ((False, 'true'), '0', True), ((True, 'clean'), '-', False)]):
        w = World('%s-symlink-%d' % (prefix, k))
        w.add(mode_line(False, ''))
        w.add('fssymlink %s %s' % (hx('real/store'), hx('lnk')))
        w.add(cfg_line(1, 'lnk/snaps' if deep else 'lnk'))
        names = [b'TestB', b'TestA'] if srt == '1' else [b'TestA', b'TestB']
        for t, n in enumerate(names, 1):
            w.add('begin %d %s' % (t, hx(n)))
            w.add('snap 1 %d %s' % (t, hx(b'value of ' + n)))
            w.add('sasnap 1 %d %s' % (t, hx(b'standalone of ' + n)))
            w.add('end %d' % t)
        # next run: the same calls replay, one stale entry and one stale file are present
        w.add('reset')
        w.add(mode_line(*mode))
        sub = 'real/store/snaps' if deep else 'real/store'
        w.add('fsput %s %s' % (hx(sub + '/gone_test.snap'), hx(frame(b'TestGone - 1', b'x'))))
        for t, n in enumerate(names, 11):
            w.add('begin %d %s' % (t, hx(n)))
            w.add('snap 1 %d %s' % (t, hx(b'value of ' + n)), ('recorded-value-replays', exp_silent))
            w.add('sasnap 1 %d %s' % (t, hx(b'standalone of ' + n)), ('recorded-value-replays', exp_silent))
            w.add('end %d' % t)
        ref = w.add('fsdump')
        cl = w.add('clean %s - 1' % srt)
        dele = (not mode[0]) and mode[1] in ('true', 'clean')

        def exp(line, raw, ww, ref=ref, cl=cl, dele=dele):
            before, after = parse_fs(ww.impl[ref]), parse_fs(raw)
            out = Line(ww.impl[cl]).out.decode('utf-8', 'replace')
            for p, c in before.items():
                base = p.rsplit(b'/', 1)[1]
                if base == b'gone_test.snap':
                    if 'gone_test.snap' not in out:
                        return 'the stale file gone_test.snap in the symlinked directory is not reported'
                    if (p in after) == dele:
                        return 'stale file %s (deleting=%s)' % ('kept' if p in after else 'removed', dele)
                    continue
                if p not in after:
                    return 'file %r, matched in this run through the symlinked directory, was removed' % base
                if base.decode() + '\n' in out:
                    return 'file %r, matched in this run through the symlinked directory, is listed as obsolete' % base
                if b'_1.snap' in base and after[p] != c:
                    return 'standalone file %r changed' % base
                if b'_1.snap' not in base:
                    ids = sorted(e[0] for e in (parse_snap(after[p]) or []))
                    if ids != [b'TestA - 1', b'TestB - 1']:
                        return 'entries of the matched file after Clean: %r' % ids
            if 'TestA - 1' in out or 'TestB - 1' in out:
                return 'a matched entry is listed as obsolete'
            return None
        w.add('fsdump', ('symlinked-directory-matched-files-kept', exp))
        worlds.append(w)
    return worlds
