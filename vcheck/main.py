import importlib, json, os, sys, time, traceback
sys.path.insert(0, os.path.dirname(os.path.abspath(__file__)))
import core
from core import Ctx


def finish(ctx, mod):
    """decide the outcome, print VIOLATION / KNOWN-FINDING lines, write evidence"""
    for l in ctx.known_lines:
        print(l, flush=True)
    broken = ctx.broken()
    if broken and not any(v[2] for v in ctx.violations):
        # an obligation is broken and the search produced no failing input
        detail = '\n'.join('%s\n%s' % (o.name, o.detail) for o in broken)
        path = core.write_replay(ctx, 'proof or correspondence obligation no longer checks: ' + ', '.join(o.name for o in broken),
                                 [], detail)
        ctx.violations.append(('obligation', path, False))
    core.write_evidence(ctx, **getattr(mod, 'EVIDENCE', {}))
    for what, path, has_input in ctx.violations:
        print('VIOLATION property=%s replay=%s%s' % (ctx.prop, path, '' if has_input else ' no-failing-input-found'), flush=True)
    return 1 if ctx.violations else 0


def main():
    if len(sys.argv) >= 3 and sys.argv[1] == 'replay':
        import replay
        sys.exit(replay.run(sys.argv[2]))
    prop = sys.argv[1]
    tier = sys.argv[2] if len(sys.argv) > 2 else os.environ.get('VERIF_TIER', 'quick')
    seed = int(os.environ.get('VERIF_SEED', '1'))
    lk = core.lock()
    ctx = Ctx(prop, tier, seed)
    rc = 1
    try:
        mod = importlib.import_module('props.' + prop)
        ok_gen = core.regenerate(ctx)
        if ok_gen:
            core.build_model(ctx)
            core.check_theorems(ctx, mod.LEAN_MODULES)
            if tier == 'thorough':
                core.leanchecker(ctx, mod.LEAN_MODULES)
        core.build_harness(ctx)
        if ctx.harness:
            import suites
            suites.run_suite(ctx, 'surface', suites.surface_worlds())
            mod.run(ctx)
        rc = finish(ctx, mod)
    except Exception:
        traceback.print_exc()
        path = core.write_replay(ctx, 'checker crashed', [], traceback.format_exc())
        # failing inputs the search had already produced before the crash are still reported
        for what, vpath, has_input in ctx.violations:
            if has_input:
                print('VIOLATION property=%s replay=%s' % (prop, vpath), flush=True)
        print('VIOLATION property=%s replay=%s no-failing-input-found' % (prop, path), flush=True)
        rc = 1
    finally:
        ctx.cleanup()
    print('%s %s seed=%s: %s in %.1fs' % (prop, tier, seed, 'OK' if rc == 0 else 'FAIL', time.time() - ctx.t0), flush=True)
    sys.exit(rc)


if __name__ == '__main__':
    main()
