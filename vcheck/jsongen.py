"""Grammar-directed generator of JSON documents as BYTES for the `json.model` suite of C14
(the Lean model of gjson.Valid and pretty.PrettyOptions against the real libraries).

A document is a tree whose scalars carry their raw text:
    ('s', raw) string token with quotes   ('n', raw) number   ('l', raw) true/false/null
    ('a', [tree, ...])                    ('o', [(rawkey, tree), ...])
so that number spellings, escapes, duplicate keys and keys that coincide only after unescaping are
chosen by the generator and survive to the text.  `render` places white space (space, tab, CR, LF)
wherever the grammar allows it; `permute` reorders object members; `malformed` derives documents
that break the grammar in one named way."""
import random

# ---- vocabulary ---------------------------------------------------------------------------

# number spellings: every corner of the grammar, values that collide as binary64, values on
# rounding boundaries (2^53+1, half of the least subnormal, the overflow threshold)
NUMBERS = [b'0', b'-0', b'1', b'-1', b'7', b'10', b'42', b'1e5', b'1E5', b'1E-5', b'1e+5', b'0.0', b'-0.0', b'0e0', b'0E+0',
           b'1.0', b'1.00', b'100e-2', b'0.1', b'0.10000000000000000001', b'3.5', b'-3.5', b'2e0', b'20e-1',
           b'123456789012345678901234567890', b'12345678901234567', b'9007199254740992', b'9007199254740993',
           b'9007199254740994', b'-1.5e+300', b'1e400', b'-1e400', b'1e-400', b'5e-324', b'2.5e-324', b'2.4e-324',
           b'2.4703282292062328e-324', b'1.7976931348623157e308', b'1.7976931348623159e308', b'0.000001', b'1e-7',
           b'99', b'100', b'1234.5678E+02', b'4.9406564584124654e-324']

# string bodies (between the quotes): plain, escapes of every kind, \u of either case, surrogate
# pairs and lone surrogates, raw UTF-8 of 2/3/4 bytes, bytes that are not UTF-8, DEL
BODIES = [b'', b'a', b'b', b'aa', b'A', b'z', b'Z', b'0', b'9', b'10', b'id', b'name', b'k.dot', b'sp ace', b' ',
          b'a\\"b', b'a\\\\b', b'a\\nb', b'\\n', b'\\t', b'\\/', b'/', b'\\b\\f\\r', b'\xc3\xa9', b'\\u00e9', b'\\u00E9',
          b'\\u0061', b'\\u0041', b'\\u0000', b'\\u001f', b'\\u007f', b'\x7f', b'\\ud83d\\ude00', b'\xf0\x9f\x98\x80',
          b'\\ud800', b'\\udc00', b'\\udc00\\ud800', b'\\ud800x', b'\\ud83dx\\ude00', b'\xe2\x82\xac', b'\\u20ac',
          b'\xff', b'\xff\\/', b'\xc0\x80', b'\xed\xa0\x80', b'\xed\xa0\x80\\n', b'\xe2\x82', b'\xf4\x90\x80\x80',
          b'\xef\xbf\xbd', b'---', b'[TestA - 1]', b'x>y', b'<a & b>', b'{', b'}', b'[', b']', b',', b':', b'a,b:c',
          b'tru', b'null', b'\\\\', b'\\\\\\"', b'ends\\\\', b'\xc2\xa0', b'\xc2\x85', b'e\xcc\x81', b'%s', b'\\u00e9\\u00e9']

# pairs of key bodies that are different texts but the same key after unescaping
TWINS = [(b'a', b'\\u0061'), (b'\xc3\xa9', b'\\u00e9'), (b'\\u00e9', b'\\u00E9'), (b'/', b'\\/'), (b'\\n', b'\\u000a'),
         (b'\xf0\x9f\x98\x80', b'\\ud83d\\ude00'), (b'\\ud800', b'\\udc00'), (b'\xef\xbf\xbd', b'\\ud800'),
         (b'\xff\\/', b'\xef\xbf\xbd/'), (b'A', b'\\u0041'), (b'a\\"b', b'a\\u0022b')]

LITS = [b'true', b'false', b'null']
WS = [b' ', b'\t', b'\r', b'\n']


def q(body):
    return b'"' + body + b'"'


# ---- trees --------------------------------------------------------------------------------

def scalar(r):
    k = r.random()
    if k < 0.40:
        return ('n', r.choice(NUMBERS))
    if k < 0.75:
        return ('s', q(r.choice(BODIES)))
    return ('l', r.choice(LITS))


def keys_for(r, n, flavour):
    """n raw key tokens.  flavour: 'distinct' (pairwise different after unescaping is likely),
    'dup' (some exact repetitions), 'twin' (some pairs equal only after unescaping)"""
    ks = []
    while len(ks) < n:
        if flavour == 'twin' and r.random() < 0.5 and n - len(ks) >= 2:
            a, b = r.choice(TWINS)
            ks += [q(a), q(b)]
        elif flavour == 'dup' and ks and r.random() < 0.4:
            ks.append(r.choice(ks))
        else:
            ks.append(q(r.choice(BODIES)))
    r.shuffle(ks)
    return ks[:n]


def tree(r, depth, maxdepth):
    k = r.random()
    if depth >= maxdepth or k < 0.30:
        return scalar(r)
    if k < 0.62:
        n = r.choice([0, 0, 1, 2, 2, 3, 4, 6])
        flavour = r.choice(['distinct', 'distinct', 'distinct', 'dup', 'twin'])
        ks = keys_for(r, n, flavour)
        if flavour != 'distinct' and r.random() < 0.5:
            # the tie among equal keys is broken by the VALUE: give them scalars of mixed kinds, numbers
            # that are equal as floats, strings equal after unescaping, or small containers
            vals = [r.choice([scalar(r), ('n', r.choice([b'1', b'1.0', b'1.00', b'100e-2', b'2', b'-0', b'0', b'1e400', b'2e400'])),
                              ('s', q(r.choice([b'a', b'\\u0061', b'b']))), ('a', []), ('o', []), ('a', [('n', b'1')]), ('l', b'null')]) for _ in ks]
        else:
            vals = [tree(r, depth + 1, maxdepth) for _ in ks]
        return ('o', list(zip(ks, vals)))
    n = r.choice([0, 1, 2, 3, 3, 5, 8])
    return ('a', [tree(r, depth + 1, maxdepth) for _ in range(n)])


def width_tree(r):
    """arrays of scalars (and arrays of arrays) whose single-line form straddles the widths 20 and
    80 at various columns; sometimes an object hidden inside (the single-line attempt must fail)"""
    def row(n):
        return ('a', [('n', str(r.choice([0, 1, 7, 10, 42, 100, 12345])).encode()) if r.random() < 0.8 else scalar(r) for _ in range(n)])
    k = r.random()
    if k < 0.3:
        t = row(r.choice([0, 1, 2, 3, 4, 5, 6, 7, 8, 12, 16, 20, 24, 30]))
    elif k < 0.6:
        t = ('a', [row(r.choice([0, 1, 2, 3, 4, 5, 6, 9, 14, 19])) for _ in range(r.randint(1, 5))])
    elif k < 0.8:
        t = ('a', [('a', [row(r.randint(0, 6)) for _ in range(r.randint(1, 3))]) for _ in range(r.randint(1, 3))])
    else:
        t = ('a', [row(r.randint(1, 5)), ('o', [(q(b'k'), row(r.randint(0, 4)))]), row(r.randint(1, 5))])
    if r.random() < 0.6:
        # under keys of different lengths the same array starts at different columns
        ks = [q(b'k' * r.choice([1, 2, 3, 5, 8, 13])) for _ in range(r.randint(1, 3))]
        t = ('o', [(k_, t if i == 0 else row(r.choice([3, 4, 5, 6, 17, 18, 19]))) for i, k_ in enumerate(ks)])
        if r.random() < 0.4:
            t = ('a', [t, row(5)])
    return t


def tie_tree(r):
    """objects whose members collide on the key (exactly, or after unescaping), so that the order
    is decided by byKeyVal's value comparison (kind rank, ParseFloat, unescaped strings, rendered
    text of containers) and by the stability of sort.Stable; up to 60 members (beyond 20 members
    sort.Stable merges blocks instead of inserting)"""
    n = r.choice([2, 3, 4, 6, 9, 15, 21, 22, 30, 45, 60])
    kb = r.sample([b'k', b'\\u006b', b'a', b'\\u0061', b'\xc3\xa9', b'\\u00e9', b'\\u00E9', b'', b'z'], r.choice([1, 2, 2, 3, 5]))
    pool = r.choice(['num', 'num', 'str', 'mixed', 'mixed', 'cont'])

    def val():
        k = pool if pool != 'mixed' else r.choice(['num', 'str', 'lit', 'cont'])
        if k == 'num':
            return ('n', r.choice(NUMBERS))
        if k == 'str':
            return ('s', q(r.choice(BODIES[:40])))
        if k == 'lit':
            return ('l', r.choice(LITS))
        return r.choice([('a', []), ('o', []), ('a', [('n', b'1')]), ('a', [('n', b'1'), ('n', b'2')]), ('o', [(q(b'x'), ('n', b'1'))]),
                         ('o', [(q(b'x'), ('n', b'2'))]), ('a', [('a', [])]), ('o', [(q(b'b'), ('l', b'null')), (q(b'a'), ('l', b'true'))])])
    t = ('o', [(q(r.choice(kb)), val()) for _ in range(n)])
    if r.random() < 0.3:
        t = ('a', [t, ('o', [(q(b'in'), t)])])
    return t


def one_line(t):
    """the single-line form pretty tries for an array under Width > 0 (None: an object inside)"""
    if t[0] == 'o':
        return None
    if t[0] == 'a':
        parts = [one_line(x) for x in t[1]]
        return None if any(p is None for p in parts) else b'[' + b', '.join(parts) + b']'
    return t[1]


def arrays_of(t):
    if t[0] == 'a':
        yield t
        for x in t[1]:
            yield from arrays_of(x)
    elif t[0] == 'o':
        for _, x in t[1]:
            yield from arrays_of(x)


def depth_of(t):
    if t[0] == 'a':
        return 1 + max([depth_of(x) for x in t[1]] or [0])
    if t[0] == 'o':
        return 1 + max([depth_of(x) for _, x in t[1]] or [0])
    return 0


def has_dup_or_twin(t, unesc):
    """does some object hold two keys that are equal after unescaping (unesc: raw token -> bytes)"""
    if t[0] == 'a':
        return any(has_dup_or_twin(x, unesc) for x in t[1])
    if t[0] == 'o':
        ks = [unesc(k) for k, _ in t[1]]
        return len(set(ks)) != len(ks) or any(has_dup_or_twin(x, unesc) for _, x in t[1])
    return False


def go_unquote(tok):
    """pretty.parsestr on a key token, independently of the Lean model: raw bytes when the token
    has no backslash; otherwise encoding/json's decoding (escapes decoded, surrogate pairs joined,
    lone surrogates and ill-formed UTF-8 replaced by U+FFFD)"""
    body = tok[1:-1]
    if b'\\' not in body:
        return body
    out = bytearray()
    i = 0
    esc = {ord('b'): 8, ord('f'): 12, ord('n'): 10, ord('r'): 13, ord('t'): 9}
    while i < len(body):
        c = body[i]
        if c == 0x5c:
            e = body[i + 1]
            if e == ord('u'):
                u = int(body[i + 2:i + 6], 16)
                i += 6
                if 0xd800 <= u < 0xe000:
                    nxt = None
                    if body[i:i + 2] == b'\\u' and len(body) >= i + 6:
                        try:
                            nxt = int(body[i + 2:i + 6], 16)
                        except ValueError:
                            nxt = None
                    if u < 0xdc00 and nxt is not None and 0xdc00 <= nxt < 0xe000:
                        out += chr(0x10000 + ((u - 0xd800) << 10) + (nxt - 0xdc00)).encode()
                        i += 6
                    else:
                        out += b'\xef\xbf\xbd'
                else:
                    out += chr(u).encode()
            else:
                out.append(esc.get(e, e))
                i += 2
        elif c < 0x80:
            out.append(c)
            i += 1
        else:
            n = None
            for ln in (2, 3, 4):
                try:
                    body[i:i + ln].decode('utf-8')
                    if len(body[i:i + ln]) == ln:
                        n = ln
                        break
                except UnicodeDecodeError:
                    pass
            if n is None:
                out += b'\xef\xbf\xbd'
                i += 1
            else:
                out += body[i:i + n]
                i += n
    return bytes(out)


# ---- presentations ------------------------------------------------------------------------

def render(t, ws):
    """ws() yields the white space for one gap"""
    if t[0] in 'snl':
        return t[1]
    if t[0] == 'a':
        if not t[1]:
            return b'[' + ws() + b']'
        return b'[' + b','.join(ws() + render(x, ws) + ws() for x in t[1]) + b']'
    if not t[1]:
        return b'{' + ws() + b'}'
    return b'{' + b','.join(ws() + k + ws() + b':' + ws() + render(x, ws) + ws() for k, x in t[1]) + b'}'


def compact(t):
    return render(t, lambda: b'')


def spaced(r, t, p=0.5):
    def ws():
        if r.random() > p:
            return b''
        return b''.join(r.choice(WS) for _ in range(r.choice([1, 1, 1, 2, 3, 7])))
    return ws() + render(t, ws) + ws()


def permute(r, t):
    if t[0] == 'a':
        return ('a', [permute(r, x) for x in t[1]])
    if t[0] == 'o':
        ms = [(k, permute(r, x)) for k, x in t[1]]
        r.shuffle(ms)
        return ('o', ms)
    return t


# ---- the malformed stream -----------------------------------------------------------------

def malformed(r, base):
    """(kind, bytes): one named way of leaving the grammar (a few of them are accepted by gjson:
    the suite compares verdicts, it does not presume them)"""
    kinds = ['truncate', 'trailing-garbage', 'bad-escape', 'short-u', 'control-char', 'lone-surrogate', 'leading-zero', 'nan-inf',
             'single-quotes', 'trailing-comma', 'leading-comma', 'bom', 'nesting', 'two-documents', 'empty', 'bare-word', 'unquoted-key',
             'missing-colon', 'missing-comma', 'other-space', 'comment', 'glued', 'number-shape', 'deep', 'byte-mutation', 'plus-sign', 'hex-case']
    k = r.choice(kinds)
    d = base
    if k == 'truncate':
        d = base[:r.randrange(0, max(1, len(base)))]
    elif k == 'trailing-garbage':
        d = base + r.choice([b'x', b',', b']', b'}', b'0', b'""', b' null', b'\x00', b'\n\n.', b':', b'\xef\xbb\xbf'])
    elif k == 'bad-escape':
        d = b'{"k":"a' + r.choice([b'\\x41', b'\\a', b'\\v', b"\\'", b'\\0', b'\\U0041', b'\\ ', b'\\\n', b'\\']) + b'"}'
    elif k == 'short-u':
        d = b'["' + r.choice([b'\\u', b'\\u1', b'\\u12', b'\\u123', b'\\u12G4', b'\\u 123', b'\\u-123', b'\\u00e', b'\\uD83D\\u']) + r.choice([b'', b'x']) + b'"]'
    elif k == 'control-char':
        d = b'{"a":"x' + bytes([r.choice([0, 1, 8, 9, 10, 13, 27, 31])]) + b'y"}'
    elif k == 'lone-surrogate':
        d = b'["' + r.choice([b'\\ud800', b'\\udfff', b'\\ud800\\ud800', b'\xed\xa0\x80', b'\\uDC00x']) + b'"]'
    elif k == 'leading-zero':
        d = r.choice([b'01', b'-01', b'00', b'[007]', b'{"a":0123}', b'-00', b'0.0.0', b'[0 1]', b'00.5', b'0e01', b'-0e-01'])
    elif k == 'nan-inf':
        d = r.choice([b'NaN', b'nan', b'Infinity', b'-Infinity', b'inf', b'+Inf', b'[NaN]', b'{"a":Infinity}', b'-inf', b'[-]'])
    elif k == 'single-quotes':
        d = r.choice([b"{'a':1}", b"['x']", b"'x'", b"{\"a\":'b'}"])
    elif k == 'trailing-comma':
        d = r.choice([b'[1,]', b'{"a":1,}', b'[1,2,]', b'[,]', b'{,}', b'[1,,2]', b'{"a":1,,"b":2}', b'[1, ]', b'{"a":[1,],"b":2}'])
    elif k == 'leading-comma':
        d = r.choice([b'[,1]', b'{,"a":1}', b',1', b'[ ,1]'])
    elif k == 'bom':
        d = b'\xef\xbb\xbf' + base
    elif k == 'nesting':
        d = r.choice([b'[}', b'{]', b'[[]', b'[]]', b'{{}}', b'{"a":{}', b'{"a":[}]', b'[{]}', b'[[[[[[', b']]]', b'{"a":}', b'{"a"}', b'{}}', b'[{}', b'][', b'}{'])
    elif k == 'two-documents':
        d = base + r.choice([b'', b' ', b'\n', b',']) + base
    elif k == 'empty':
        d = r.choice([b'', b' ', b'\n', b'\t\r\n ', b'\x00'])
    elif k == 'bare-word':
        d = r.choice([b'nul', b'tru', b'fals', b'True', b'NULL', b'truee', b'nulll', b'falsee', b'[tru]', b'[nul,1]', b'undefined', b'{"a":yes}', b't', b'f', b'n', b'[truefalse]', b'[true false]', b'true1', b'nullnull'])
    elif k == 'unquoted-key':
        d = r.choice([b'{a:1}', b'{1:1}', b'{"a":1,b:2}', b'{null:1}', b'{[]:1}'])
    elif k == 'missing-colon':
        d = r.choice([b'{"a" 1}', b'{"a","b"}', b'{"a"::1}', b'{"a":1 "b":2}', b'{"a";1}', b'{"a"=1}'])
    elif k == 'missing-comma':
        d = r.choice([b'[1 2]', b'[1\n2]', b'["a""b"]', b'[[][]]', b'{"a":1"b":2}', b'[1:2]', b'[1;2]'])
    elif k == 'other-space':
        # white space that is not JSON white space, between tokens
        d = b'[1,' + r.choice([b'\x0b', b'\x0c', b'\xc2\xa0', b'\x00', b'\xe2\x80\xa8', b'\x1f', b'\x85']) + b'2]'
    elif k == 'comment':
        d = r.choice([b'[1 /*c*/]', b'// c\n1', b'[1] // c', b'#\n1'])
    elif k == 'glued':
        # tokens with no separator: some are fine (`[1,-2]`), some are not (`[1-2]`, `[1"a"]`)
        d = r.choice([b'[1-2]', b'[1"a"]', b'["a"1]', b'[truenull]', b'[1,-2]', b'[-1,-2]', b'[1e5e5]', b'[1.5.5]', b'[1true]', b'{"a":1"b"}', b'[""""]', b'[0-0]', b'[00]', b'[0,0]', b'[1[2]]', b'[[1]2]', b'[{}{}]', b'[1{}]'])
    elif k == 'number-shape':
        d = r.choice([b'-', b'+1', b'.5', b'1.', b'1.e5', b'1e', b'1e+', b'1e-', b'1E', b'0x10', b'1_000', b'1e5.5', b'--1', b'-+1', b'1e++5', b'1,5', b'[1.]', b'[-]', b'[1e]', b'[.1]', b'-.5', b'2.e3', b'1e 5', b'1 e5', b'- 1',
                      b'-0', b'-0.0e-0', b'0e0', b'1E+0', b'1e005', b'0.00', b'10e-01'])
    elif k == 'deep':
        # (valid deep documents stay below 300 levels: the model prints them in quadratic time)
        n = r.choice([7, 30, 100, 250])
        m = r.choice([7, 30, 200, 1000, 3000])
        d = r.choice([b'[' * n + b']' * n, b'[' * m + b']' * (m - 1), b'{"a":' * n + b'1' + b'}' * n, b'[' * m + b'1' + b']' * m + b']',
                      b'{"a":' * m + b'1' + b'}' * (m - 1), b'[' * m, b'{"a":[' * m])
    elif k == 'byte-mutation':
        if base:
            i = r.randrange(len(base))
            m = r.randrange(3)
            b = bytes([r.choice([0x22, 0x5c, 0x2c, 0x3a, 0x5b, 0x5d, 0x7b, 0x7d, 0x20, 0x30, 0x2d, 0x65, 0x2e, 0x0a, 0x00, 0x1f, 0x7f, 0x80, 0xff, 0x74, 0x6e, 0x75])])
            d = base[:i] + b + base[i + 1:] if m == 0 else base[:i] + base[i + 1:] if m == 1 else base[:i] + b + base[i:]
    elif k == 'plus-sign':
        d = r.choice([b'[+1]', b'1e+5', b'1E+05', b'+0', b'[1e+]', b'1e+-5'])
    elif k == 'hex-case':
        d = b'["\\u' + bytes(r.choice(b'0123456789abcdefABCDEFgG') for _ in range(4)) + b'"]'
    return k, d


def size_bucket(n):
    for lim in (16, 64, 256, 1024, 4096):
        if n < lim:
            return '<%d' % lim
    return '>=4096'
