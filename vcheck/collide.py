"""Adversarial vocabulary for everything that compares or indexes LINES: pairs of distinct lines that
are equal under a shortcut (32-bit hash, length, fixed-size prefix, case folding, trimming, Unicode
normalisation, ...).  The pairs come from the committed corpus vcheck/data/line_collisions.json
(built offline by tools/collide.py); nothing is searched at check time."""
import json, os

_PATH = os.path.join(os.path.dirname(os.path.abspath(__file__)), 'data', 'line_collisions.json')
_cache = {}

SUFFIXES = [b'', b': yes', b' = 1', b'",', b' -> {"k": [1, 2]}']
PREFIXES = [b'', b'  ', b'- ', b'"key": "', b'name: ']


def pairs():
    """[(cls, a, b, robust)]"""
    if 'pairs' not in _cache:
        es = json.load(open(_PATH))['pairs']
        _cache['pairs'] = [(e['cls'], bytes.fromhex(e['a']), bytes.fromhex(e['b']), e['robust']) for e in es]
    return _cache['pairs']


def classes():
    return sorted(set(p[0] for p in pairs()))


def variant(r, p):
    """one concrete pair of lines for corpus entry p: the pair itself, or (where the shortcut survives
    it) the pair inside a longer line; randomly swapped"""
    cls, a, b, rob = p
    if rob in ('suffix', 'both') and r.random() < 0.6:
        s = r.choice(SUFFIXES)
        a, b = a + s, b + s
    if rob == 'both' and r.random() < 0.5:
        q = r.choice(PREFIXES)
        a, b = q + a, q + b
    if r.random() < 0.5:
        a, b = b, a
    return a, b


def partner_index():
    """line -> list of lines colliding with it (exact corpus lines only)"""
    if 'idx' not in _cache:
        idx = {}
        for cls, a, b, rob in pairs():
            idx.setdefault(a, []).append((b, cls))
            idx.setdefault(b, []).append((a, cls))
        _cache['idx'] = idx
    return _cache['idx']


def partner(r, line):
    """a different line that collides with `line` under some shortcut, or None.  Works for corpus
    lines and for corpus lines carrying a suffix (suffix-robust classes)."""
    idx = partner_index()
    if line in idx:
        b, cls = r.choice(idx[line])
        return b, cls
    if 'heads' not in _cache:
        heads = {}
        for cls, a, b, rob in pairs():
            if rob in ('suffix', 'both') and len(a) >= 2 and len(b) >= 2:
                heads.setdefault(a[:2], []).append((a, b, cls))
                heads.setdefault(b[:2], []).append((b, a, cls))
        _cache['heads'] = heads
    for a, b, cls in _cache['heads'].get(line[:2], ()):
        if line.startswith(a) and len(line) > len(a):
            return b + line[len(a):], cls
    return None


def some_line(r):
    """a line that has a colliding partner (for the random body generators)"""
    p = r.choice(pairs())
    return variant(r, p)[0]


FILLER = [b'{', b'  "id": 1,', b'  "name": "x",', b'}', b'', b'header', b'second line', b'third line', b'---', b'- item', b'key: value',
          b'    deeply indented', b'end']


def document_pair(r, p, nlines, where=None, repeats=1):
    """(text_a, text_b): two multi-line documents that differ ONLY in `repeats` occurrences of a
    colliding pair of lines; `where` = 'first' | 'last' | 'middle' | None (random)"""
    a, b = variant(r, p)
    n = max(nlines, repeats)
    doc = [(r.choice(FILLER) if r.random() < 0.5 else b'line %d of the document' % i) for i in range(n)]
    if where == 'first':
        pos = [0]
    elif where == 'last':
        pos = [n - 1]
    elif where == 'middle':
        pos = [n // 2]
    else:
        pos = [r.randrange(n)]
    while len(pos) < repeats:
        k = r.randrange(n)
        if k not in pos:
            pos.append(k)
    da, db = list(doc), list(doc)
    for k in pos:
        da[k], db[k] = a, b
    return b'\n'.join(da), b'\n'.join(db)


def deterministic_documents(r, per_class=2, sizes=(1, 3, 12)):
    """for every class of the corpus: `per_class` pairs, each as a 1-line text and inside documents of
    the given sizes (first / middle / last line)"""
    out = []
    by = {}
    for p in pairs():
        by.setdefault(p[0], []).append(p)
    for cls in sorted(by):
        ps = by[cls][:]
        r.shuffle(ps)
        for p in ps[:per_class]:
            for n in sizes:
                for where in (('first',) if n == 1 else ('first', 'middle', 'last')):
                    ta, tb = document_pair(r, p, n, where)
                    out.append((cls, ta, tb))
    return out
