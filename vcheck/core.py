"""Orchestrator core: regenerate the Lean facts from /repo, re-check the theorems, build the
harness from /repo's working tree, run operation lists through the real code and through the
Lean model, compare, shrink, write evidence.  Standard library only."""
import fcntl, glob, hashlib, json, os, random, re, shutil, subprocess, sys, tempfile, time

ROOT = os.environ.get('VERIF_ROOT') or os.path.dirname(os.path.dirname(os.path.abspath(__file__)))
LEAN = ROOT + '/lean'
BUILD = ROOT + '/.build'
REPO = os.environ.get('VERIF_REPO', '/repo')   # the tree under test (override only for mutation experiments)
GOENV = dict(GOFLAGS='-mod=mod', GOPROXY='off', GOSUMDB='off', GOTOOLCHAIN='local')
ALLOWED_AXIOMS = {'propext', 'Classical.choice', 'Quot.sound'}
FORBIDDEN = re.compile(r'\b(sorry|admit|native_decide|bv_decide|implemented_by|unsafe)\b|^\s*axiom\s|maxHeartbeats\s+0', re.M)


def hx(b):
    if isinstance(b, str):
        b = b.encode()
    return b.hex() if b else '-'


def unhx(s):
    return b'' if s == '-' or s == '' else bytes.fromhex(s)


def sh(cmd, env=None, timeout=1800, cwd=None, stdin=None):
    e = dict(os.environ)
    e.update(GOENV)
    if env:
        e.update(env)
    p = subprocess.run(cmd, shell=isinstance(cmd, str), env=e, cwd=cwd, input=stdin,
                       stdout=subprocess.PIPE, stderr=subprocess.STDOUT, timeout=timeout)
    return p.returncode, p.stdout.decode('utf-8', 'replace')


class Obligation:
    def __init__(self, name, ok, detail=''):
        self.name, self.ok, self.detail = name, ok, detail


class Ctx:
    def __init__(self, prop, tier, seed):
        self.prop, self.tier, self.seed = prop, tier, seed
        self.t0 = time.time()
        self.tmp = tempfile.mkdtemp(prefix='verif_' + prop + '_')
        self.obl = []            # proof / tie obligations
        self.violations = []     # (what, replay_path, has_input)
        self.known_hits = {}     # finding id -> count of generated inputs that fell in the class
        self.known_lines = []    # KNOWN-FINDING lines to print
        self.stats = dict(evaluations=0, nontrivial=set(), samples=[], traces=0, suites={}, dist={})
        self.harness = None
        self.model = None
        self.theorems = []
        self.notes = []
        self.facts = {}          # generated facts (stay empty when the regeneration failed: the search still runs)
        self.generated_changed = False

    def add_obl(self, name, ok, detail=''):
        self.obl.append(Obligation(name, ok, detail))
        if not ok:
            print('OBLIGATION BROKEN: %s\n%s' % (name, detail[:3000]), flush=True)

    def broken(self):
        return [o for o in self.obl if not o.ok]

    def cleanup(self):
        shutil.rmtree(self.tmp, ignore_errors=True)


def lock():
    os.makedirs(BUILD, exist_ok=True)
    f = open(ROOT + '/.lock', 'w')
    fcntl.flock(f, fcntl.LOCK_EX)
    return f


# ---------------------------------------------------------------- tie A: regenerate

# which properties rest on which fact group of tools/extract (a group that is missing here concerns
# every property)
_FRAMING = ['C01', 'C02', 'C03', 'C04', 'C06', 'C07', 'C09', 'C10', 'C18']
FACT_DEPS = {
    'noParamsWarning': ['C20'],
    'endSequenceByteSlice': _FRAMING,
    'defaultConfig': ['C11', 'C12'],
    'escape': ['C01', 'C02', 'C04', 'C18', 'C19'],
    'addFmt': _FRAMING,
    'cleanFmt': ['C07', 'C09', 'C10'],
    'idFmt': ['C01', 'C03', 'C06', 'C07', 'C09', 'C10', 'C17'],
    'occFmt': ['C07', 'C08', 'C09', 'C10'],
    'matcherErrFmt': ['C17'],
    'getTestID': ['C07', 'C08', 'C09', 'C10'],
    'skipSep': ['C08', 'C09'],
    'constructFilename': ['C07', 'C11', 'C12', 'C19'],
    'standaloneJSONExt': ['C11', 'C12', 'C14', 'C19'],
    'prettyOptions': ['C12', 'C14'],
    'sjsonOptions': ['C15', 'C16'],
    'diffContext': ['C02', 'C13'],
    'structural': ['C05', 'C06', 'C12', 'C15', 'C20'],
    # primitives the run-time semantics of the transliterations assumes (tools/extract/prims.go)
    'prim events.register': ['C06', 'C20'],
    'prim newTestEvents': ['C20'],
    'prim syncSlice.append': ['C06', 'C08', 'C09', 'C20'],
    'prim newSyncSlice': ['C08', 'C09'],
    'prim set.Has': ['C07', 'C08', 'C09'],
    'prim newRegistry': ['C03', 'C07', 'C09'],
    'prim newStandaloneRegistry': ['C03', 'C19', 'C09'],
    'prim snapshotScanner': ['C01', 'C03', 'C04', 'C07', 'C10', 'C18'],
    'prim naturalSort': ['C05', 'C07', 'C09', 'C10'],
    'mod github.com/maruel/natural': ['C05', 'C07', 'C09', 'C10'],
    'mod github.com/tidwall/gjson': ['C14', 'C15', 'C16', 'C17'],
    'mod github.com/tidwall/pretty': ['C12', 'C14'],
    'mod github.com/tidwall/sjson': ['C15', 'C16'],
    'prim Any': ['C15', 'C16', 'C17'],
    'prim Custom': ['C15', 'C16', 'C17'],
    'prim Type': ['C15', 'C16', 'C17'],
    'prim typePlaceholder': ['C16'],
    'prim typeCheck': ['C16', 'C17'],
}

def regenerate(ctx):
    gen = LEAN + '/GoSnaps/Generated'
    exe = BUILD + '/extract'
    rc, out = sh('go build -o %s .' % exe, cwd=ROOT + '/tools/extract')
    if rc != 0:
        ctx.add_obl('A.extractor-builds', False, out)
        return False
    new = tempfile.mkdtemp(prefix='gen_', dir=ctx.tmp)
    rc, out = sh([exe, REPO, new])
    if rc != 0:
        # stale generated files must not survive a failed regeneration
        ctx.add_obl('A.regenerate', False, 'tools/extract could not read the current sources:\n' + out)
        return False
    os.makedirs(gen, exist_ok=True)
    changed = False
    for f in os.listdir(new):
        src, dst = os.path.join(new, f), os.path.join(gen, f)
        if not os.path.exists(dst) or open(src, 'rb').read() != open(dst, 'rb').read():
            shutil.copy(src, dst)
            changed = True
    for f in os.listdir(gen):
        if f not in os.listdir(new):
            os.remove(os.path.join(gen, f))
    ctx.add_obl('A.regenerate', True)
    if ctx.tier == 'thorough':
        rc, out = sh(['python3', ROOT + '/tools/extract_selftest.py'])
        ctx.add_obl('A.extractor-selftest (mutated sources are noticed)', rc == 0, out[-1500:] if rc else '')
    ctx.facts = json.load(open(gen + '/facts.json'))
    ctx.generated_changed = changed
    # fact groups whose source shape the extractor no longer recognises: the committed defaults were
    # used (the model still builds); the obligation is broken for the properties that rest on the group
    for group, why in sorted((ctx.facts.get('failed') or {}).items()):
        deps = FACT_DEPS.get(group)
        if deps is None or ctx.prop in deps:
            ctx.add_obl('A.fact ' + group, False, 'tools/extract does not recognise the source any more (stale default used): ' + why)
    return True


def lake_build(target):
    return sh(['lake', 'build', target], cwd=LEAN, timeout=3000)


def build_model(ctx):
    rc, out = lake_build('gosnaps-model')
    exe = LEAN + '/.lake/build/bin/gosnaps-model'
    ok = rc == 0 and os.path.exists(exe)
    ctx.add_obl('model.driver-builds', ok, '' if ok else out[-3000:])
    if ok:
        ctx.model = exe
    return ok


def theorem_names(path):
    """fully qualified names of the theorems of a file (namespace/section aware), and the source
    without comments"""
    src = open(path).read()
    src_nc = re.sub(r'/-.*?-/', '', src, flags=re.S)
    src_nc = re.sub(r'--.*', '', src_nc)
    stack, names = [], []
    for line in src_nc.split('\n'):
        m = re.match(r'^\s*namespace\s+(\S+)', line)
        if m:
            stack.append(m.group(1))
            continue
        m = re.match(r'^\s*end\s+(\S+)\s*$', line)
        if m and stack and stack[-1] == m.group(1):
            stack.pop()
            continue
        m = re.match(r'^\s*(?:@\[[^\]]*\]\s*)?(?:private\s+|protected\s+)?theorem\s+([A-Za-z_][A-Za-z0-9_\.\'!?]*)', line)
        if m and 'private' not in line.split('theorem')[0]:
            names.append('.'.join(stack + [m.group(1)]))
    return names, src_nc


def check_theorems(ctx, modules):
    """lake build each module; grep for forbidden constructs; #print axioms for every theorem."""
    all_ok = True
    for mod in modules:
        path = LEAN + '/' + mod.replace('.', '/') + '.lean'
        rc, out = lake_build(mod)
        if rc != 0:
            errs = '\n'.join(l for l in out.splitlines() if 'error' in l or 'Error' in l)[:2500]
            ctx.add_obl('lean.build ' + mod, False, errs or out[-2500:])
            all_ok = False
            continue
        ctx.add_obl('lean.build ' + mod, True)
    # forbidden constructs anywhere in the hand-written Lean sources
    bad = []
    for f in glob.glob(LEAN + '/GoSnaps/**/*.lean', recursive=True) + [LEAN + '/Main.lean']:
        _, nc = theorem_names(f)
        m = FORBIDDEN.search(nc)
        if m:
            bad.append('%s: %s' % (f, m.group(0).strip()))
    ctx.add_obl('lean.no-sorry-no-axioms', not bad, '\n'.join(bad))
    if not all_ok:
        return False
    # axiom audit of every theorem of the property modules
    names = []
    for mod in modules:
        path = LEAN + '/' + mod.replace('.', '/') + '.lean'
        ths, nc = theorem_names(path)
        names += [(mod, t) for t in ths]
    audit = os.path.join(ctx.tmp, 'Audit.lean')
    with open(audit, 'w') as f:
        for mod in modules:
            f.write('import %s\n' % mod)
        for _, n in names:
            f.write('#print axioms %s\n' % n)
    rc, out = sh(['lake', 'env', 'lean', audit], cwd=LEAN, timeout=1200)
    if rc != 0:
        ctx.add_obl('lean.axiom-audit', False, out[-2000:])
        return False
    # parse: "'X' depends on axioms: [a, b]" / "'X' does not depend on any axioms"
    text = out.replace('\n ', ' ')
    seen = {}
    for m in re.finditer(r"'(\S+)' (does not depend on any axioms|depends on axioms: \[([^\]]*)\])", text):
        seen[m.group(1)] = set(a.strip() for a in (m.group(3) or '').split(',') if a.strip())
    for mod, n in names:
        if n not in seen:
            ctx.add_obl('lean.audit ' + n, False, 'no #print axioms output')
            all_ok = False
        else:
            extra = seen[n] - ALLOWED_AXIOMS
            ctx.add_obl('theorem ' + n, not extra, 'depends on ' + ', '.join(sorted(extra)) if extra else '')
            all_ok = all_ok and not extra
            ctx.theorems.append(dict(name=n, axioms=sorted(seen[n])))
    return all_ok


def leanchecker(ctx, modules):
    for mod in modules:
        rc, out = sh(['lake', 'env', 'leanchecker', mod], cwd=LEAN, timeout=3000)
        ctx.add_obl('leanchecker ' + mod, rc == 0, out[-1500:] if rc else '')


# ---------------------------------------------------------------- tie B: harness

# optional statement-coverage measurement of the correspondence harness (VERIF_COVER=<dir>); used
# by tools/coverage.sh to list the go-snaps statements no check ever executes
COVER = os.environ.get('VERIF_COVER')
COVER_BINS = set()


def cover_build_flags():
    return ['-cover', '-covermode=count', '-coverpkg=github.com/gkampitakis/go-snaps/...'] if COVER else []


def cover_run_flags():
    if not COVER:
        return []
    os.makedirs(COVER, exist_ok=True)
    import uuid
    return ['-test.coverprofile=%s/%s.out' % (COVER, uuid.uuid4().hex)]


def build_harness(ctx, tags='verif', name='snaps.test'):
    out_bin = os.path.join(ctx.tmp, name)
    ov = os.path.join(ctx.tmp, name + '.overlay.json')
    rep = {}
    for f in glob.glob(ROOT + '/harness/snaps/*.go'):
        rep[REPO + '/snaps/zz_verif_' + os.path.basename(f)] = f
    json.dump({'Replace': rep}, open(ov, 'w'))
    # optional hooks (harness/snaps_opt/<hook>_real.go | <hook>_stub.go): white-box switches that a change to the tree may
    # remove; the harness is then built with the stub, the worlds that need the hook are dropped (ctx.hooks) and the
    # missing hook is a broken obligation of its own
    hooks = sorted(set(os.path.basename(f).rsplit('_', 1)[0] for f in glob.glob(ROOT + '/harness/snaps_opt/*_real.go')))
    ctx.hooks = {h: True for h in hooks}

    def build():
        r = dict(rep)
        for h in hooks:
            # (both variants are injected under a *_test.go name: the hook belongs to the test binary only)
            r[REPO + '/snaps/zz_verif_hook_%s_test.go' % h] = ROOT + '/harness/snaps_opt/%s_%s.go' % (h, 'real' if ctx.hooks[h] else 'stub')
        json.dump({'Replace': r}, open(ov, 'w'))
        return sh(['go', 'test', '-c', '-vet=off'] + cover_build_flags() + ['-tags', tags, '-overlay', ov, '-o', out_bin, './snaps'], cwd=REPO)
    rc, out = build()
    if rc != 0:
        for h in hooks:
            ctx.hooks[h] = False
            rc2, out2 = build()
            if rc2 == 0:
                ctx.add_obl('B.hook ' + h, False, 'the harness builds only without the white-box hook %r:\n%s' % (h, out[-1500:]))
                rc, out = rc2, out2
                break
            ctx.hooks[h] = True
    ok = rc == 0 and os.path.exists(out_bin)
    ctx.add_obl('B.harness-builds', ok, '' if ok else out[-3000:])
    if ok:
        ctx.harness = out_bin
    return ok


def build_pkg_harness(ctx, pkg, srcdir, name):
    """inject /verif/harness/<srcdir>/*.go into /repo/<pkg> and build that package's test binary"""
    out_bin = os.path.join(ctx.tmp, name)
    ov = os.path.join(ctx.tmp, name + '.overlay.json')
    rep = {}
    for f in glob.glob('%s/harness/%s/*.go' % (ROOT, srcdir)):
        rep['%s/%s/zz_verif_%s' % (REPO, pkg, os.path.basename(f))] = f
    json.dump({'Replace': rep}, open(ov, 'w'))
    rc, out = sh(['go', 'test', '-c', '-vet=off'] + cover_build_flags() + ['-tags', 'verif', '-overlay', ov, '-o', out_bin, './' + pkg], cwd=REPO)
    ok = rc == 0 and os.path.exists(out_bin)
    ctx.add_obl('B.harness-builds ' + pkg, ok, '' if ok else out[-3000:])
    if COVER:
        COVER_BINS.add(out_bin)
    return out_bin if ok else None


def run_raw(ctx, binary, testname, ops, env=None, timeout=1800):
    """run a line-in/line-out harness test; returns result lines"""
    d = tempfile.mkdtemp(prefix='raw_', dir=ctx.tmp)
    opsf, outf = d + '/ops.txt', d + '/impl.out'
    open(opsf, 'w').write('\n'.join(ops) + '\n')
    e = dict(os.environ)
    e.update(dict(VERIF_OPS=opsf, VERIF_OUT=outf, NO_COLOR='1'))
    if env:
        e.update(env)
    p = subprocess.run([binary, '-test.run', '^%s$' % testname, '-test.count=1'] + (cover_run_flags() if binary in COVER_BINS else []), env=e, cwd=d,
                       stdout=subprocess.PIPE, stderr=subprocess.STDOUT, timeout=timeout)
    lines = open(outf).read().split('\n') if os.path.exists(outf) else []
    if lines and lines[-1] == '':
        lines.pop()
    shutil.rmtree(d, ignore_errors=True)
    return p.returncode, lines, p.stdout.decode('utf-8', 'replace')[-1500:]


class Line:
    """one canonical result line"""
    def __init__(self, raw):
        self.raw = raw
        self.op = raw.split(' ', 1)[0] if raw else ''
        self.events, self.writes, self.removed, self.out = [], [], [], b''
        self.structured = False
        m = re.match(r'^(\S+) ev=(\S*) w=(\S*) d=(\S*) out=(\S*)$', raw)
        if m:
            self.structured = True
            for e in [x for x in m.group(2).split(',') if x]:
                k, _, v = e.partition(':')
                self.events.append((k, unhx(v)))
            self.writes = sorted(unhx(x) for x in m.group(3).split(',') if x)
            self.removed = sorted(unhx(x) for x in m.group(4).split(',') if x)
            self.out = unhx(m.group(5))

    def canon(self):
        if not self.structured:
            return self.raw
        out = self.out
        if self.op == 'clean':
            out = canon_summary(out)
        return (self.op, tuple(self.events), tuple(self.writes), tuple(self.removed), out)

    def errors(self):
        return [v for k, v in self.events if k == 'E']

    def logs(self):
        return [v for k, v in self.events if k == 'L']


def canon_summary(out):
    """obsolete *files* are listed in Go map order of directories: sort each list block"""
    lines = out.split(b'\n')
    res, block = [], []
    for l in lines:
        if l.startswith(b'  \xe2\x86\xb3 '):
            block.append(l)
        else:
            res += sorted(block)
            block = []
            res.append(l)
    res += sorted(block)
    return b'\n'.join(res)


def parse_fs(raw):
    """'fs p=c;p=c' -> dict"""
    d = {}
    body = raw[3:] if raw.startswith('fs ') else ''
    for it in [x for x in body.split(';') if x]:
        p, _, c = it.partition('=')
        d[unhx(p)] = unhx(c)
    return d


def run_impl(ctx, ops, env=None, timeout=600):
    d = tempfile.mkdtemp(prefix='run_', dir=ctx.tmp)
    opsf, outf, annf = d + '/ops.txt', d + '/impl.out', d + '/ann.txt'
    open(opsf, 'w').write('\n'.join(ops) + '\n')
    e = dict(VERIF_OPS=opsf, VERIF_OUT=outf, VERIF_ANN=annf, NO_COLOR='1', TMPDIR=d)
    e.pop('CI', None)
    if env:
        e.update(env)
    full = dict(os.environ)
    for k in list(full):
        # CI detection reads many variables; start from a clean slate
        if k in ('CI', 'UPDATE_SNAPS', 'NO_COLOR', 'GITHUB_ACTIONS', 'BUILD_NUMBER', 'RUN_ID', 'CONTINUOUS_INTEGRATION', '_'):
            full.pop(k)
    full.update(e)
    if full.get('NO_COLOR') == '':
        full.pop('NO_COLOR')
    try:
        p = subprocess.run([ctx.harness, '-test.run', '^TestVerifHarness$', '-test.count=1'] + cover_run_flags(), env=full, cwd=d,
                           stdout=subprocess.PIPE, stderr=subprocess.STDOUT, timeout=timeout)
        tail = p.stdout.decode('utf-8', 'replace')[-2000:]
        rc = p.returncode
    except subprocess.TimeoutExpired:
        rc, tail = -9, 'timeout'
    impl = open(outf).read().split('\n') if os.path.exists(outf) else []
    ann = open(annf).read() if os.path.exists(annf) else ''
    if impl and impl[-1] == '':
        impl.pop()
    shutil.rmtree(d, ignore_errors=True)
    return rc, impl, ann, tail


def run_model(ctx, ann, timeout=900):
    try:
        p = subprocess.run('ulimit -s unlimited 2>/dev/null; exec ' + ctx.model, shell=True, input=ann.encode(),
                           stdout=subprocess.PIPE, stderr=subprocess.PIPE, timeout=timeout)
    except subprocess.TimeoutExpired:
        return -9, []
    out = p.stdout.decode('utf-8', 'replace').split('\n')
    if out and out[-1] == '':
        out.pop()
    return p.returncode, out


def split_worlds(lines):
    worlds, cur = [], None
    for l in lines:
        if l.startswith('world'):
            cur = [l]
            worlds.append(cur)
        elif cur is not None:
            cur.append(l)
    return worlds


DIFF_WILDCARD = b'<DIFF>'


def lines_agree(a, b):
    """impl line a vs model line b"""
    if b == 'skipline' or b.startswith('skipline '):
        return True     # an op that only queries the harness (the model has nothing to say), or one the model
                        # declares outside its fragment (`skipline cover=0 reason=…`, counted by the suite)
    la, lb = Line(a), Line(b)
    if not la.structured or not lb.structured:
        return a == b
    ca, cb = la.canon(), lb.canon()
    if ca == cb:
        return True
    return False


class World:
    """a self-contained operation list (first line 'world <tag>') with optional per-op expectations"""
    def __init__(self, tag, ops=None):
        self.tag = tag
        self.ops = ['world ' + tag] + (ops or [])
        self.expect = {}      # op index -> (name, fn(Line, raw) -> None | str)
        self.flags = set()    # classes the generator knows this world falls in
        self.meta = {}

    def add(self, op, expect=None):
        self.ops.append(op)
        if expect:
            self.expect[len(self.ops) - 1] = expect
        return len(self.ops) - 1


def correspond(ctx, suite, worlds, env=None, use_model=True):
    """Run worlds through implementation (and model); returns list of problems:
       dict(kind='corr'|'expect'|'crash', world=World, index=i, detail=str)"""
    ops = []
    for w in worlds:
        ops += w.ops
    rc, impl, ann, tail = run_impl(ctx, ops, env)
    problems = []
    st = ctx.stats['suites'].setdefault(suite, dict(worlds=0, ops=0, corr_mismatch=0, expect_fail=0, unsupported=0))
    st['worlds'] += len(worlds)
    st['ops'] += len(ops)
    ctx.stats['evaluations'] += len(ops)
    if rc != 0 or len(impl) != len(ops):
        problems.append(dict(kind='crash', world=None, index=-1,
                             detail='harness exit %s, %d result lines for %d ops\n%s' % (rc, len(impl), len(ops), tail)))
        return problems, impl, []
    model = []
    if use_model and ctx.model:
        mrc, model = run_model(ctx, ann)
        if mrc != 0 or len(model) != len(ops):
            problems.append(dict(kind='crash', world=None, index=-1,
                                 detail='model driver exit %s, %d result lines for %d ops' % (mrc, len(model), len(ops))))
            model = []
    pos = 0
    for w in worlds:
        n = len(w.ops)
        wi = impl[pos:pos + n]
        wm = model[pos:pos + n] if model else None
        w.impl = wi
        w.model = wm
        first_corr = None
        if wm is not None:
            for i in range(n):
                if 'unsupported:' in wm[i]:
                    st['unsupported'] += 1
                    ctx.stats['dist']['unsupported:' + wm[i].split('unsupported:', 1)[1][:40]] = \
                        ctx.stats['dist'].get('unsupported:' + wm[i].split('unsupported:', 1)[1][:40], 0) + 1
                    break   # the model does not cover this input; the rest of the world is not comparable
                if not lines_agree(wi[i], wm[i]):
                    first_corr = i
                    break
            else:
                ctx.stats['traces'] += 1
        if first_corr is not None:
            st['corr_mismatch'] += 1
            problems.append(dict(kind='corr', world=w, index=first_corr,
                                 detail='op %d %r\n impl : %s\n model: %s' % (first_corr, w.ops[first_corr][:200], wi[first_corr][:600], wm[first_corr][:600])))
        for i, (name, fn) in sorted(w.expect.items()):
            msg = fn(Line(wi[i]), wi[i], w)
            if msg:
                st['expect_fail'] += 1
                problems.append(dict(kind='expect', world=w, index=i, name=name,
                                     detail='op %d %r: expected %s: %s\n impl: %s' % (i, w.ops[i][:200], name, msg, wi[i][:600])))
                break
        pos += n
    return problems, impl, model


def still_fails(ctx, w, ops, prob, env):
    w2 = World(w.tag)
    w2.ops = ops
    w2.flags = w.flags
    if prob['kind'] == 'expect':
        # expectation indices shift with removal: recompute by op identity
        w2.expect = {}
        for i, e in w.expect.items():
            if w.ops[i] in ops:
                w2.expect[ops.index(w.ops[i])] = e
    ps, impl, _ = correspond(ctx, '_shrink', [w2], env, use_model=(prob['kind'] == 'corr'))
    had_panic = any(l.startswith(('panic:', 'bad-op')) for l in getattr(w, 'impl', []) or [])
    if not had_panic and any(l.startswith(('panic:', 'bad-op')) for l in impl):
        return None     # the reduced list is not a valid world any more (e.g. its cfg/begin line is gone)
    for p in ps:
        if p['kind'] == prob['kind'] and (p['kind'] != 'expect' or p.get('name') == prob.get('name')):
            return p
    return None


def spec_candidates(spec):
    """smaller variants of a structured world description (dict with 'execs': [(name, [calls])],
    optional 'pre': same): drop one execution, or one call"""
    import copy
    for key in ('pre', 'execs'):
        ex = spec.get(key) or []
        for i in range(len(ex) - 1, -1, -1):
            c = copy.copy(spec)
            c[key] = ex[:i] + ex[i + 1:]
            yield c
        for i in range(len(ex) - 1, -1, -1):
            name, calls = ex[i]
            for j in range(len(calls) - 1, -1, -1):
                c = copy.copy(spec)
                c[key] = ex[:i] + [(name, calls[:j] + calls[j + 1:])] + ex[i + 1:]
                yield c
    for key in ('modes',):
        ms = spec.get(key) or []
        if len(ms) > 1:
            for i in range(len(ms)):
                c = copy.copy(spec)
                c[key] = [ms[i]]
                yield c


def shrink_spec(ctx, prob, env=None, budget=150):
    """structured shrinking: the world is re-rendered from a smaller description, so that its
    expectations stay meaningful"""
    w = prob['world']
    spec, render = w.spec, w.render
    best, best_w = prob, w
    tries, progress = 0, True
    deadline = time.time() + 40          # shrinking is a convenience: never let it dominate the run
    while progress and tries < budget and time.time() < deadline:
        progress = False
        for cand in spec_candidates(spec):
            tries += 1
            if tries > budget or time.time() > deadline:
                break
            w2 = render(w.tag, cand)
            ps, impl, _ = correspond(ctx, '_shrink', [w2], env, use_model=False)
            hit = [p for p in ps if p['kind'] == 'expect' and p.get('name') == prob.get('name')]
            if hit:
                spec, best, best_w = cand, hit[0], w2
                progress = True
                break
    ctx.stats['suites'].pop('_shrink', None)
    return best_w.ops, best


def shrink(ctx, prob, env=None, budget=120):
    w = prob['world']
    if prob['kind'] == 'expect':
        if getattr(w, 'spec', None) is not None:
            return shrink_spec(ctx, prob, env)
        return list(w.ops), prob
    ops = list(w.ops)
    best = prob
    i = len(ops) - 1
    tries = 0
    deadline = time.time() + 40
    while i >= 1 and tries < budget and time.time() < deadline:
        if ops[i].split(' ')[0] in ('mode',) and False:
            i -= 1
            continue
        cand = ops[:i] + ops[i + 1:]
        tries += 1
        p = still_fails(ctx, w, cand, prob, env)
        if p:
            ops = cand
            best = p
            best['world_ops'] = ops
        i -= 1
    ctx.stats['suites'].pop('_shrink', None)
    return ops, best


def write_replay(ctx, title, ops, detail, env=None, extra=None):
    os.makedirs(ROOT + '/replays', exist_ok=True)
    h = hashlib.sha1(('\n'.join(ops) + title + detail).encode()).hexdigest()[:10]
    path = '%s/replays/%s-%s-%s.replay' % (ROOT, ctx.prop, ctx.seed, h)
    with open(path, 'w') as f:
        f.write('# property %s: %s\n' % (ctx.prop, title))
        f.write('# replay with: ./check replay %s\n' % path)
        for l in detail.splitlines():
            f.write('# ' + l + '\n')
        if env:
            f.write('#env ' + json.dumps(env) + '\n')
        if extra:
            f.write('#extra ' + json.dumps(extra) + '\n')
        for op in ops:
            f.write(op + '\n')
    return path


# ---------------------------------------------------------------- known findings

def load_known():
    res = []
    p = ROOT + '/KNOWN_FINDINGS.txt'
    if not os.path.exists(p):
        return res
    for l in open(p):
        l = l.strip()
        if not l or l.startswith('#'):
            continue
        kind, _, rest = l.partition(':')
        fields = dict(re.findall(r'(\w+)=(\S+)', rest))
        what = rest.split(' -- ', 1)[1] if ' -- ' in rest else rest
        res.append(dict(kind=kind.strip(), what=what.strip(), **fields))
    return res


# ---------------------------------------------------------------- evidence

def write_evidence(ctx, level='proof', extra_assumptions=None, exhaustive=False, rule=''):
    obl = ctx.obl
    cov = dict(
        obligations=len(obl),
        discharged=sum(1 for o in obl if o.ok),
        checker_cmd='cd /verif/lean && lake build GoSnaps.Props.%s && lake env lean <generated audit with #print axioms for every theorem>%s'
                    % (ctx.prop, ' && lake env leanchecker GoSnaps.Props.' + ctx.prop if ctx.tier == 'thorough' else ''),
        trusted_base=[
            'Lean 4.33.0 kernel; axioms propext, Classical.choice, Quot.sound only (audited per theorem with #print axioms)',
            'tools/extract (go/ast fact extractor, mode-gate translator, statement-by-statement transliteration of 95 functions and of internal/difflib, source text of 13 assumed primitives) regenerating lean/GoSnaps/Generated from /repo on every run, and lean/GoSnaps/GoSem.lean + GoIO.lean (the reading of Go it targets)',
            'correspondence harness (harness/snaps, injected with go test -overlay) and the Python orchestrator (vcheck/)',
            'the model primitives\' reading of Go semantics (bufio.ScanLines, strings.*, fmt verbs, filepath.*, os file operations as atomic)',
            'third-party libraries are modelled, not verified: gjson.Valid, tidwall/pretty, gjson path lookup and sjson replacement have executable Lean models (Json.lean, JsonPath.lean) compared with the libraries on generated documents; json.Marshal, kr/pretty, goccy/go-yaml, diffmatchpatch, regexp, go/parser, natural.Less are parameters with explicit contracts, exercised by the correspondence suites',
        ],
        evaluations=ctx.stats['evaluations'],
        distinct_nontrivial=len(ctx.stats['nontrivial']),
        rule=rule or 'operation lists generated from VERIF_SEED; a case is non-trivial when the real code produced at least one testingT event or file write; distinct by the hash of (operations, results)',
        samples=ctx.stats['samples'][:6],
        traces_validated_against_impl=ctx.stats['traces'],
        obligation_list=[dict(name=o.name, ok=o.ok) for o in obl],
        theorems=ctx.theorems,
        suites=ctx.stats['suites'],
        input_distribution=ctx.stats['dist'],
        known_finding_hits=ctx.known_hits,
        exhaustive=exhaustive,
        notes=ctx.notes,
    )
    ev = dict(property_id=ctx.prop, tier=ctx.tier, seed=ctx.seed, level=level, coverage=cov,
              assumptions=(extra_assumptions or []),
              wall_s=round(time.time() - ctx.t0, 2), violations=len(ctx.violations))
    # evidence describes runs against /repo itself; a mutation experiment (VERIF_REPO) must not overwrite it
    evdir = ROOT + ('/.build/evidence_experiment' if os.environ.get('VERIF_REPO') else '/evidence')
    os.makedirs(evdir, exist_ok=True)
    json.dump(ev, open('%s/%s.json' % (evdir, ctx.prop), 'w'), indent=1, default=str)


def note_case(ctx, w):
    """bookkeeping of distinct non-trivial cases + samples"""
    impl = getattr(w, 'impl', None)
    if not impl:
        return
    nontriv = any((' ev=' in l and not re.search(r' ev= w= d= ', l)) for l in impl)
    if nontriv:
        ctx.stats['nontrivial'].add(hashlib.sha1(('\n'.join(w.ops[1:]) + '\n'.join(impl[1:])).encode()).hexdigest())
    if len(ctx.stats['samples']) < 6 and nontriv:
        ctx.stats['samples'].append(dict(tag=w.tag, ops=[o[:160] for o in w.ops[:14]], results=[l[:160] for l in impl[:14]]))


def race_stress(ctx, runs=3):
    """build the harness with -race and run the concurrent stress of Match*, Skip* and one shared
    Config; a DATA RACE report is a violation with the report as replay"""
    out_bin = os.path.join(ctx.tmp, 'race.test')
    ov = os.path.join(ctx.tmp, 'race.overlay.json')
    rep = {}
    for f in glob.glob(ROOT + '/harness/snaps/*.go'):
        rep[REPO + '/snaps/zz_verif_' + os.path.basename(f)] = f
    for h, real in getattr(ctx, 'hooks', {}).items():
        rep[REPO + '/snaps/zz_verif_hook_%s_test.go' % h] = ROOT + '/harness/snaps_opt/%s_%s.go' % (h, 'real' if real else 'stub')
    json.dump({'Replace': rep}, open(ov, 'w'))
    rc, out = sh(['go', 'test', '-c', '-race', '-vet=off', '-tags', 'verif', '-overlay', ov, '-o', out_bin, './snaps'], cwd=REPO)
    if rc != 0:
        ctx.add_obl('B.race-harness-builds', False, out[-2000:])
        return
    st = ctx.stats['suites'].setdefault('race.stress', dict(runs=0, races=0))
    for i in range(runs):
        e = dict(os.environ)
        e.update(VERIF_RACE='1', NO_COLOR='1', GORACE='halt_on_error=0')
        p = subprocess.run([out_bin, '-test.run', '^TestVerifRace$', '-test.count=1'], env=e, cwd=ctx.tmp,
                           stdout=subprocess.PIPE, stderr=subprocess.STDOUT, timeout=600)
        txt = p.stdout.decode('utf-8', 'replace')
        st['runs'] += 1
        ctx.stats['evaluations'] += 1
        if 'DATA RACE' in txt:
            st['races'] += txt.count('DATA RACE')
            path = write_replay(ctx, 'data race reported by the Go race detector under concurrent Match*/Skip*/shared Config', [],
                                txt[:6000], None, dict(kind='race'))
            ctx.violations.append(('race', path, True))
            return
    ctx.add_obl('B.race-stress (no DATA RACE in %d runs)' % runs, True)
