"""Shared world builders and the suite runner."""
import core, collide
from core import World, hx, Line, parse_fs
from gen import Gen, Call, cfg_line, mode_line


def exp_silent(line, raw, w):
    if not line.structured:
        return 'unstructured result ' + raw[:100]
    if line.events:
        return 'events reported: ' + ', '.join('%s:%r' % (k, v[:80]) for k, v in line.events)
    if line.writes or line.removed:
        return 'file system touched: w=%r d=%r' % (line.writes, line.removed)
    return None


def exp_same_fs(ref_index):
    def f(line, raw, w):
        a, b = parse_fs(w.impl[ref_index]), parse_fs(raw)
        if a != b:
            ks = [k for k in set(a) | set(b) if a.get(k) != b.get(k)]
            return 'directory differs at %r' % ks[:3]
        return None
    return f


def exp_one_error_no_write(line, raw, w):
    if len(line.errors()) != 1 or len(line.events) != 1:
        return 'expected exactly one Error and nothing else, got %r' % [(k, v[:60]) for k, v in line.events]
    if line.errors()[0] == b'':
        return 'empty failure report'
    if line.writes or line.removed:
        return 'file system touched'
    return None


_listed = {}


def LISTED(prop):
    if prop not in _listed:
        _listed[prop] = set(k.get('id') for k in core.load_known() if k['kind'] == 'known' and k.get('property') == prop)
    return _listed[prop]


def run_suite(ctx, name, worlds, env=None, known=None, use_model=True, chunk=400):
    """known: fn(world, problem) -> finding id or None (class predicate of a known finding)"""
    any_corr = False
    for c in range(0, len(worlds), chunk):
        batch = worlds[c:c + chunk]
        problems, impl, model = core.correspond(ctx, name, batch, env, use_model)
        for w in batch:
            core.note_case(ctx, w)
            for f in w.flags:
                ctx.stats['dist']['flag:' + f] = ctx.stats['dist'].get('flag:' + f, 0) + 1
        seen_worlds = set()
        # failures of a property oracle on the implementation carry a failing input: report them first
        # (the number of reports per run is capped)
        problems.sort(key=lambda p: {'crash': 0, 'expect': 1}.get(p['kind'], 2))
        for p in problems:
            if p['kind'] == 'crash':
                path = core.write_replay(ctx, 'suite %s could not run' % name, [], p['detail'], env)
                ctx.add_obl('B.corr ' + name, False, p['detail'])
                ctx.violations.append(('crash ' + name, path, False))
                any_corr = True
                continue
            w = p['world']
            kid = known(w, p) if known else None
            # a class only suppresses a report when KNOWN_FINDINGS.txt lists it as `known` for this property
            if kid and kid.startswith('SKIP:'):
                # outside the property's own quantifier (e.g. the documented carriage-return limitation)
                ctx.stats['dist'][kid] = ctx.stats['dist'].get(kid, 0) + 1
                continue
            if kid and kid not in LISTED(ctx.prop):
                kid = None
            if kid:
                ctx.known_hits[kid] = ctx.known_hits.get(kid, 0) + 1
                continue
            # at most 5 failing inputs per run, and at most 2 correspondence disagreements per suite (a disagreement
            # in one suite must not use up the room for the failing inputs a later suite finds)
            if (id(w), p['kind']) in seen_worlds:
                continue
            if p['kind'] == 'corr' and sum(1 for v in ctx.violations if v[0] == 'corr ' + name) >= 2:
                continue
            if p['kind'] != 'corr' and sum(1 for v in ctx.violations if v[2]) >= 5:
                continue
            seen_worlds.add((id(w), p['kind']))
            ops, best = core.shrink(ctx, p, env)
            if p['kind'] == 'corr':
                any_corr = True
                path = core.write_replay(ctx, 'correspondence suite %s: model and implementation disagree' % name,
                                         ops, best['detail'], env, dict(kind='corr', suite=name))
                ctx.add_obl('B.corr ' + name, False, best['detail'] + '\nreplay: ' + path)
                ctx.violations.append(('corr ' + name, path, False))
            else:
                path = core.write_replay(ctx, 'property oracle %s failed on the implementation' % p.get('name'),
                                         ops, best['detail'], env, dict(kind='expect', suite=name, oracle=p.get('name')))
                ctx.violations.append(('expect ' + name, path, True))
    if not any_corr and use_model and ctx.model:
        ctx.add_obl('B.corr ' + name, True)
    # a correspondence mismatch accompanied by a failing input is reported with the input
    if any(v[2] for v in ctx.violations):
        ctx.violations = [v for v in ctx.violations if v[2]] + [v for v in ctx.violations if not v[2] and not v[0].startswith('corr')]


class Hist:
    """a generated history: cfgs + executions of tests with their calls"""
    def __init__(self):
        self.cfgs = []       # cfg op lines
        self.execs = []      # (name, [(cfgno, Call)])
        self.flags = set()


def gen_calls(g, n, ids_hint=(), allow=(), kinds=None):
    r = g.r
    kinds = kinds or ['snap'] * 6 + ['json'] * 2 + ['yaml'] * 1 + ['sasnap'] * 1 + ['sajson'] * 1
    calls = []
    for _ in range(n):
        k = r.choice(kinds)
        if k == 'snap':
            if r.random() < 0.12:
                calls.append(Call('snap', [g.body(ids_hint, allow) for _ in range(r.randint(2, 3))]))
            else:
                calls.append(Call('snap', g.body(ids_hint, allow)))
        elif k == 'sasnap':
            b = g.body(ids_hint, allow + ('cr',) if 'sacr' in allow else allow)
            calls.append(Call('sasnap', b))
        elif k in ('json', 'sajson'):
            v = g.json_value()
            form = r.choice(['s', 's', 'b', 'v'])
            if form == 'v' and not isinstance(v, (dict, list)):
                form = 's'      # a Go string / []byte value is JSON *text* for MatchJSON
            txt = g.json_text(v).encode()
            if 'badjson' in allow and r.random() < 0.1:
                txt, form = g.bad_json().encode(), r.choice(['s', 'b'])
            calls.append(Call(k, txt, form, failing_matchers(r, 'json') if 'badmatch' in allow and r.random() < 0.15 else user_matchers(r)))
        else:
            txt = g.yaml_text().encode()
            if 'badyaml' in allow and r.random() < 0.1:
                txt = g.bad_yaml().encode()
            calls.append(Call('yaml', txt, r.choice(['s', 'b']), failing_matchers(r, 'yaml') if 'badmatch' in allow and r.random() < 0.15 else user_matchers(r)))
    return calls


def failing_matchers(r, fam):
    """matchers at least one of which fails on every document (a path no generated document has, a Custom
    callback that returns an error when the path happens to be the document root's first key is not needed):
    the call is rejected after validation, before the snapshot stage - one failure, one `failed` outcome"""
    import docs
    miss = 'zz_no_such_member_zz' if fam == 'json' else '$.zz_no_such_member_zz'
    ms = [docs.any_matcher([miss])]
    if r.random() < 0.4:
        ms.append(docs.type_matcher([miss + '2'], 'string'))
    if r.random() < 0.3:
        ms.insert(0, docs.custom_matcher(miss + '3', False, 'boom'))
    if r.random() < 0.3:
        ms.insert(r.randint(0, len(ms)), docs.user_matcher(r.random() < 0.5, False))
    return tuple(ms)


def user_matchers(r):
    """now and then a JSON/YAML call carries user-defined matchers that only inspect the document (they
    report success as nil or as an empty non-nil slice, hand on the slice they got or a copy): what is
    stored and compared is the same as without them, and the caller's []byte stays as it was"""
    if r.random() >= 0.15:
        return ()
    import docs
    return tuple(docs.user_matcher(r.random() < 0.5, r.random() < 0.3) for _ in range(r.randint(1, 2)))


def gen_history(g, allow=(), max_tests=4, max_calls=8, kinds=None, ncfg=None):
    r = g.r
    h = Hist()
    ncfg = ncfg or r.choice([1, 1, 2, 3])
    files = [(None, None), ('custom', None), ('other_name', '.txt'), (None, '.yaml')]
    r.shuffle(files)
    for i in range(ncfg):
        fn, ext = files[i]
        h.cfgs.append(cfg_line(i + 1, r.choice(['snaps', 'snaps', 'a/b/__snapshots__']) if i else 'snaps', fn, ext))
    names = g.names(r.randint(1, max_tests), allow)
    # ids that may exist, for shadow lines
    ids = [n + b' - ' + str(k).encode() for n in names for k in (1, 2)]
    # a Config with Filename set names its standalone files <Filename>_<k> whatever the test is,
    # so at most one test of a world may make standalone calls through such a Config
    has_fn = [files[i][0] is not None for i in range(ncfg)]
    sa_owner = {}
    for n in names:
        calls = []
        k = r.choice([0, 1, 1, 2, 3, max_calls, 12 if 'many' in allow else 2])
        for c in gen_calls(g, k, ids, allow, kinds):
            cfgno = r.randint(1, ncfg)
            if c.kind in ('sasnap', 'sajson') and has_fn[cfgno - 1]:
                if 'nosafn' in allow or sa_owner.setdefault(cfgno, n) != n:
                    c.kind = 'snap' if c.kind == 'sasnap' else 'json'
            calls.append((cfgno, c))
        bad = [x for x in ('badjson', 'badyaml') if x in allow]
        if bad and r.random() < 0.06:
            # a test ALL of whose calls are rejected at validation: it takes ordinals and nothing else (a
            # later execution of the same test starts at slot 1 again)
            cfgno = r.randint(1, ncfg)
            calls = [(cfgno, Call('json', g.bad_json().encode(), r.choice(['s', 'b'])) if r.choice(bad) == 'badjson'
                      else Call('yaml', g.bad_yaml().encode(), r.choice(['s', 'b']))) for _ in range(r.choice([1, 1, 2]))]
        h.execs.append((n, calls))
    for n, calls in h.execs:
        for _, c in calls:
            if c.kind in ('snap', 'yaml'):
                vals = c.payload if isinstance(c.payload, (list, tuple)) else [c.payload]
                for v in vals:
                    h.flags |= Gen.body_flags(v, ids)
        if b'%' in n and any(c.kind in ('sasnap', 'sajson') for _, c in calls):
            h.flags.add('pct')
    # a value quoting the header of ITS OWN slot (a log line naming the running test and call): the
    # lookup of a slot stops at the first header line, which is the real one, so this is harmless -
    # unlike a line equal to ANOTHER slot's header (flag `shadow`, known finding D9)
    if 'noself' not in allow:
        for n, calls in h.execs:
            k = {}
            for cfgno, c in calls:
                if c.kind in ('snap', 'json', 'yaml'):
                    k[cfgno] = k.get(cfgno, 0) + 1
                if c.kind == 'snap' and r.random() < 0.07:
                    own = b'[' + n + b' - ' + str(k[cfgno]).encode() + b']'
                    vals = list(c.payload) if isinstance(c.payload, (list, tuple)) else [c.payload]
                    i = r.randrange(len(vals))
                    ls = vals[i].split(b'\n')
                    ls.insert(r.randint(0, len(ls)), own)
                    vals[i] = b'\n'.join(ls)
                    c.payload = vals
                    h.flags.add('selfshadow')
    return h


def emit_exec(w, texec, name, calls, expect=None):
    """begin / calls / end; returns indices of the call ops"""
    w.add('begin %d %s' % (texec, hx(name)))
    idx = []
    for cfgno, c in calls:
        idx.append(w.add(c.op(cfgno, texec), expect))
    w.add('end %d' % texec)
    return idx


# ---------------------------------------------------------------- independent structure-aware parser

def parse_snap(content):
    """Independent parser of the multi-entry file format: returns [(id_without_brackets, body)] in
    file order, or None if the bytes are not of the form (\\n [id] \\n body \\n --- \\n)*.
    Stored bodies are escaped, so the first '---' line after a header ends the entry."""
    if content == b'':
        return []
    ls = content.split(b'\n')
    if ls[-1] != b'':
        return None
    ls = ls[:-1]
    out, i = [], 0
    while i < len(ls):
        if ls[i] != b'' or i + 1 >= len(ls):
            return None
        hdr = ls[i + 1]
        if not (hdr.startswith(b'[') and hdr.endswith(b']')):
            return None
        j = i + 2
        while j < len(ls) and ls[j] != b'---':
            j += 1
        if j >= len(ls):
            return None
        out.append((hdr[1:-1], b'\n'.join(ls[i + 2:j])))
        i = j + 1
    return out


def parse_snap_edited(content):
    """parse_snap for a file that went through `fsedit` (top blank line, final newline, blank lines between
    entries removed from outside) and possibly through later rewrites / appends of the library"""
    if content and not content.startswith(b'\n'):
        content = b'\n' + content
    if content and not content.endswith(b'\n'):
        content += b'\n'
    content = content.replace(b'\n---\n[', b'\n---\n\n[')
    return parse_snap(content)


def edit_choice(r, execs, p=0.25):
    """now and then the multi-entry files are edited from outside between the recording run and the next one
    (harness op `fsedit`); not in worlds with standalone files, whose content is the value itself"""
    if any(c.kind in ('sasnap', 'sajson') for _, calls in execs for _, c in calls) or r.random() >= p:
        return None
    return r.choice(['lead', 'tail', 'gaps', 'all'])
def scan_lines(content):
    """the tokens bufio.ScanLines yields for a whole file: split at LF, no empty final token, ONE
    trailing CR dropped from every token"""
    ls = content.split(b'\n')
    if ls and ls[-1] == b'':
        ls.pop()
    return [l[:-1] if l.endswith(b'\r') else l for l in ls]


def parse_snap_scan(content, loose=False):
    """Independent parser of a multi-entry file AS THE LINE SCANNER SEES IT (line endings LF, CR LF
    or mixed: files checked out with core.autocrlf are well defined, the scanner drops the CR).
    Returns the logical entries [(id, body)] in file order, or None when the lines are not of the
    form (blank, [id], body..., ---)*.  With loose=True any number of blank / free-text lines that
    do not start with `[` may stand between entries (hand-edited files)."""
    if content == b'':
        return []
    if not content.endswith(b'\n'):
        return None
    ls = scan_lines(content)
    out, i = [], 0
    while i < len(ls):
        if loose:
            while i < len(ls) and not ls[i].startswith(b'['):
                i += 1
            if i >= len(ls):
                break
            hdr = ls[i]
            i -= 1
        else:
            if ls[i] != b'' or i + 1 >= len(ls):
                return None
            hdr = ls[i + 1]
        if not (hdr.startswith(b'[') and hdr.endswith(b']')):
            return None
        j = i + 2
        while j < len(ls) and ls[j] != b'---':
            j += 1
        if j >= len(ls):
            return None
        out.append((hdr[1:-1], b'\n'.join(ls[i + 2:j])))
        i = j + 1
    return out


def crlf_all(b):
    return b.replace(b'\n', b'\r\n')


def has_cr_eol(b):
    """does some line of the text end in a carriage return (the documented limitation of the
    multi-entry format: bufio.ScanLines strips it when the entry is read back)"""
    return any(l.endswith(b'\r') for l in b.split(b'\n'))


CRLF_MODES = ['all', 'all', 'odd', 'even']


def crlf_ops(cfgs, mode):
    """`fscrlf` ops converting the multi-entry file of every cfg line (standalone files are values:
    their bytes are never touched)"""
    seen, ops = set(), []
    for c in cfgs:
        p = snap_file_suffix(c)[1:]
        if p not in seen:
            seen.add(p)
            ops.append('fscrlf %s %s' % (mode, hx(p)))
    return ops


def esc(b):
    return b'\n'.join(b'/-/-/-/' if l == b'---' else l for l in b.split(b'\n'))


def unesc(b):
    return b'\n'.join(b'---' if l == b'/-/-/-/' else l for l in b.split(b'\n'))


def snap_file_suffix(cfgline):
    """relative path (under the world root) of the multi-entry file a cfg addresses"""
    t = cfgline.split()
    d = core.unhx(t[2]).decode()
    fn = core.unhx(t[3]).decode() if t[3] != '-' else 'zz_verif_harness_test'
    ext = core.unhx(t[4]).decode() if t[4] != '-' else ''
    return '/%s/%s.snap%s' % (d, fn, ext)


def mutate_text(g, b, eol=False):
    """a text different from b, by one small edit; returns (new, tag).  eol=True also produces texts
    that differ from b ONLY in line endings (LF <-> CR LF); only for values that are compared and
    never stored in a multi-entry file (a CR at the end of a stored line is the documented
    limitation of that format)"""
    r = g.r
    ls = b.split(b'\n')
    tw = [(i, t) for i, t in ((i, collide.partner(r, l)) for i, l in enumerate(ls)) if t]
    big = [x for x in tw if len(ls[x[0]]) >= 3]       # '' / ' ' / 'x' have twins too, and are everywhere
    if (big and r.random() < 0.5) or (tw and r.random() < 0.08):
        # swap one line for a line that a coarser-than-bytes comparison takes for the same
        i, (new, cls) = r.choice(big or tw)
        if new != ls[i]:
            return b'\n'.join(ls[:i] + [new] + ls[i + 1:]), 'twin-line:' + cls
    for _ in range(20):
        k = r.randrange(14 if eol else 12)
        ls = b.split(b'\n')
        if k in (12, 13):
            if b'\r\n' in b:
                return (b.replace(b'\r\n', b'\n'), 'crlf-to-lf') if k == 12 else (b.replace(b'\r\n', b'\n', 1), 'one-crlf-to-lf')
            if b'\n' in b:
                if k == 12:
                    return b.replace(b'\n', b'\r\n'), 'lf-to-crlf'
                i = r.choice([j for j, x in enumerate(b) if x == 10])
                return b[:i] + b'\r' + b[i:], 'one-lf-to-crlf'
            continue
        if k in (10, 11):
            # cut the text right after (or before) a terminator / escape-token line: what a reader that
            # stops at a badly escaped terminator would take for the whole value
            cand = [i for i, l in enumerate(ls[:-1]) if l in (b'---', b'/-/-/-/')]
            if not cand:
                continue
            i = r.choice(cand)
            return b'\n'.join(ls[:i + 1] if k == 10 else ls[:i]), 'truncate-at-token-line'
        if k == 9:
            cand = [i for i, l in enumerate(ls) if l.strip(b' ') == b'---']
            if not cand:
                continue
            i = r.choice(cand)
            new = r.choice([b'--- ', b' ---', b'---  ']) if ls[i] == b'---' else b'---'
            return b'\n'.join(ls[:i] + [new] + ls[i + 1:]), 'pad-terminator-line'

        if k == 0:
            n, tag = b + b'\n', 'add-trailing-nl'
        elif k == 1 and b.endswith(b'\n'):
            n, tag = b[:-1], 'drop-trailing-nl'
        elif k == 2:
            n, tag = b + b' ', 'trailing-space'
        elif k == 3 and b:
            i = r.randrange(len(b))
            c = b[i:i + 1]
            n, tag = b[:i] + (c.swapcase() if c.swapcase() != c else b'#') + b[i + 1:], 'one-byte'
        elif k == 4:
            i = r.randrange(len(b) + 1)
            n, tag = b[:i] + bytes([r.choice([0x80, 0xff, 0xfe])]) + b[i:], 'insert-high-byte'
        elif k == 5 and any(x >= 0x80 for x in b):
            i = r.choice([j for j, x in enumerate(b) if x >= 0x80])
            n, tag = b[:i] + bytes([b[i] ^ 1]) + b[i + 1:], 'flip-high-byte'
        elif k == 6:
            i = r.randrange(len(ls) + 1)
            n, tag = b'\n'.join(ls[:i] + [g.line()] + ls[i:]), 'insert-line'
        elif k == 7 and len(ls) > 1:
            i = r.randrange(len(ls))
            n, tag = b'\n'.join(ls[:i] + ls[i + 1:]), 'delete-line'
        elif k == 8:
            n, tag = b'\n' + b, 'leading-nl'
        else:
            continue
        if n != b:
            return n, tag
    return b + b'x', 'append'


def mutate_call(g, c, eol=False):
    """a call of the same kind whose formatted value differs (eol: see mutate_text)"""
    import json as _json
    if c.kind == 'sasnap' and g.r.random() < 0.25:
        ls = c.payload.split(b'\n')
        cand = [i for i, l in enumerate(ls) if l in (b'---', b'/-/-/-/')]
        if cand:
            i = g.r.choice(cand)
            ls[i] = b'/-/-/-/' if ls[i] == b'---' else b'---'
            # a standalone file is stored verbatim: the two spellings are different values
            return Call('sasnap', b'\n'.join(ls)), 'swap-token-standalone'
    if c.kind in ('snap', 'sasnap'):
        if isinstance(c.payload, (list, tuple)):
            vals = list(c.payload)
            if c.kind == 'snap' and g.r.random() < 0.3:
                # the formatted text is the values joined by newlines: an empty first value is a
                # leading newline, not nothing
                if vals[0] == b'' and len(vals) > 1:
                    return Call(c.kind, vals[1:]), 'drop-empty-first-value'
                return Call(c.kind, [b''] + vals), 'add-empty-first-value'
            i = g.r.randrange(len(vals))
            vals[i], tag = mutate_text(g, vals[i], eol)
            return Call(c.kind, vals), tag
        n, tag = mutate_text(g, c.payload, eol)
        return Call(c.kind, n), tag
    if c.kind in ('json', 'sajson'):
        try:
            v = _json.loads(c.payload.decode())
        except Exception:
            return None, None
        v2 = {'__changed__': v} if g.r.random() < 0.5 else [v, 1]
        return Call(c.kind, _json.dumps(v2).encode(), c.form if c.form != 'v' else 's'), 'json-wrap'
    if c.kind == 'yaml':
        if c.payload.startswith((b'#', b'/', b'[', b'-')):
            return None, None
        return Call('yaml', b'zz_first: 1\n' + c.payload, c.form), 'yaml-add-key'
    return None, None


def conflated(a, b):
    """D10: two texts that differ only by `---` lines versus `/-/-/-/` lines"""
    return a != b and unesc(a) == unesc(b)


def gen_nest(r, execs, prob=0.35):
    """nest[i] = (host, position): execution i runs completely between two calls of execution host"""
    nest = {}
    for i in range(len(execs)):
        if r.random() < prob and len(execs) > 1:
            host = r.choice([j for j in range(len(execs)) if j != i])
            # a test never runs inside another execution of itself
            if host not in nest and i not in [h for h, _ in nest.values()] and execs[host][1] and execs[host][0] != execs[i][0]:
                nest[i] = (host, r.randint(0, len(execs[host][1])))
    return nest


def emit_nested(w, execs, nest, texec_of, per_call):
    """emit executions with nesting; per_call(i, k, cfgno, call, texec) adds the op(s) for one call"""
    nest = {i: v for i, v in nest.items() if i < len(execs) and v[0] < len(execs)}
    nest = {i: v for i, v in nest.items() if execs[i][0] != execs[v[0]][0] and v[0] != i}      # never inside an execution of itself (shrinking shifts indices)
    hosted = {}
    for i, (host, pos) in nest.items():
        hosted.setdefault(host, []).append((pos, i))

    def emit(i):
        name, calls = execs[i]
        texec = texec_of(i)
        w.add('begin %d %s' % (texec, hx(name)))
        inner = sorted(hosted.get(i, []))
        for k, (cfgno, c) in enumerate(calls):
            for pos, j in inner:
                if pos == k:
                    emit(j)
            per_call(i, k, cfgno, c, texec)
        for pos, j in inner:
            if pos >= len(calls):
                emit(j)
        w.add('end %d' % texec)
    for i in range(len(execs)):
        if i not in nest:
            emit(i)


# ---------------------------------------------------------------- API surface worlds (every check)

def surface_worlds():
    """Fixed worlds run by EVERY check as part of the tie: the exported package-level functions
    (plain configs go through MatchSnapshot(t,…) etc. every other call, see the harness), calls
    without values (a warning, no ordinal consumed), the five entry points in each mode, and a
    Clean after them."""
    from gen import cfg_line, mode_line, Call
    import core
    worlds = []

    def exp_warning(line, raw, w):
        ks = [k for k, _ in line.events]
        if ks != ['L'] or b'without params' not in line.events[0][1]:
            return 'a call without values must log exactly one warning, got %r' % (line.events,)
        if line.writes or line.removed:
            return 'a call without values must not touch the file system'
        return None

    def exp_kind(kind):
        def f(line, raw, w):
            ks = [k for k, _ in line.events]
            if kind == 'added' and not (ks == ['L'] and line.events[0][1].endswith(b'added') and len(line.writes) == 1):
                return 'expected one `added` log and one written file, got %r writes=%r' % (line.events, line.writes)
            if kind == 'silent' and (ks or line.writes or line.removed):
                return 'expected a silent pass, got %r writes=%r' % (line.events, line.writes)
            if kind == 'error' and not (ks == ['E'] and not line.writes):
                return 'expected exactly one error and no write, got %r writes=%r' % (line.events, line.writes)
            return None
        return f
    docs = [Call('snap', [b'alpha', b'beta\ngamma']), Call('json', b'{"b": [1, 2, {"c": null}], "a": "x"}', 's'),
            Call('yaml', b'k: v\nlist:\n  - 1\n  - two\n', 's'), Call('sasnap', b'standalone\ntext'),
            Call('sajson', b'{"z": 1, "y": [true, false]}', 'b')]
    for ci, upd in ((False, ''), (False, 'true'), (True, ''), (False, 'clean')):
        w = World('surface-%d-%s' % (ci, upd or 'unset'))
        w.add(mode_line(False, ''))
        w.add(cfg_line(1, 'snaps'))
        w.add('begin 1 ' + core.hx(b'TestSurface'))
        # twice each, so that both the package-level function and the method are used for each
        # entry point whatever the parity of earlier calls
        for c in docs:
            for _ in range(2):
                w.add(c.op(1, 1), ('surface-added', exp_kind('added')))
                w.add('snap 1 1', ('surface-warning', exp_warning))
        w.add('end 1')
        w.add('reset')
        w.add(mode_line(ci, upd))
        w.add('begin 2 ' + core.hx(b'TestSurface'))
        for c in docs:
            for _ in range(2):
                w.add(c.op(1, 2), ('surface-replay', exp_kind('silent')))
            w.add('snap 1 2', ('surface-warning', exp_warning))
        # one more call than recorded: created off CI, `snapshot not found` on CI
        w.add(docs[0].op(1, 2), ('surface-extra', exp_kind('error' if ci else 'added')))
        w.add('end 2')
        w.add('clean 0 - 1')
        w.add('fsdump')
        worlds.append(w)
    return worlds
