"""Known findings: replay each listed witness on the implementation; print KNOWN-FINDING when it
still fails.  The file is never written at run time."""
import os
import core


def report(ctx, prop):
    for k in core.load_known():
        if k.get('property') != prop:
            continue
        if 'witness' in k and os.path.exists(core.ROOT + '/' + k['witness']) and '"kind": "conc"' in open(core.ROOT + '/' + k['witness']).read():
            continue      # schedule witnesses are replayed by the C06 check itself
        if k['kind'] == 'known':
            import replay
            wit = core.ROOT + '/' + k['witness']
            still = replay.fails(ctx, wit)
            if still:
                ctx.known_lines.append('KNOWN-FINDING: property=%s %s %s' % (prop, k.get('id', ''), k['what']))
            else:
                ctx.notes.append('known finding %s no longer reproduces' % k.get('id'))
        elif k['kind'] == 'fixed':
            import replay
            wit = core.ROOT + '/' + k['witness'] if 'witness' in k else None
            if wit and os.path.exists(wit) and replay.fails(ctx, wit):
                path = wit
                ctx.violations.append(('regression of fixed finding %s' % k.get('id'), path, True))
