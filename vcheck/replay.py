"""./check replay <file>: re-run a replay file (operation list + expectation name) on the
implementation and the model, print what happens."""
import json, os, sys
import core
from core import World, Ctx
import suites

ORACLES = {}


def oracle(name):
    def d(f):
        ORACLES[name] = f
        return f
    return d


def load(path):
    ops, env, extra, header = [], None, {}, []
    for l in open(path):
        l = l.rstrip('\n')
        if l.startswith('#env '):
            env = json.loads(l[5:])
        elif l.startswith('#extra '):
            extra = json.loads(l[7:])
        elif l.startswith('#'):
            header.append(l)
        elif l.strip():
            ops.append(l)
    return ops, env, extra, header


def fails(ctx, path):
    """True if the witness still shows its failure: every '#expect <index> <oracle>' line holds
    (they describe the *defective* behaviour), i.e. the finding reproduces."""
    ops, env, extra, header = load(path)
    w = World('witness')
    w.ops = ops
    probs, impl, model = core.correspond(ctx, '_known', [w], env, use_model=False)
    ctx.stats['suites'].pop('_known', None)
    if any(p['kind'] == 'crash' for p in probs):
        return True
    checks = extra.get('defect', [])
    for idx, kind, arg in checks:
        if kind == 'raw-contains':
            if arg not in impl[idx]:
                return False
            continue
        line = core.Line(impl[idx])
        if kind in ('events', 'writes', 'out-contains') and not line.structured:
            raise RuntimeError('witness %s: op %d is not a call (%r)' % (path, idx, impl[idx][:60]))
        if kind == 'events':
            if [k for k, _ in line.events] != arg:
                return False
        elif kind == 'writes':
            if bool(line.writes or line.removed) != arg:
                return False
        elif kind == 'fs-differs':
            if core.parse_fs(impl[idx]) == core.parse_fs(impl[arg]):
                return False
        elif kind == 'fs-contains':
            if not any(bytes.fromhex(arg) in c for c in core.parse_fs(impl[idx]).values()):
                return False
        elif kind == 'fs-lacks':
            if any(bytes.fromhex(arg) in c for c in core.parse_fs(impl[idx]).values()):
                return False
        elif kind == 'fs-path-contains':
            if not any(bytes.fromhex(arg) in pth for pth in core.parse_fs(impl[idx])):
                return False
        elif kind == 'fs-path-lacks':
            if any(bytes.fromhex(arg) in pth for pth in core.parse_fs(impl[idx])):
                return False
        elif kind == 'out-contains':
            if bytes.fromhex(arg) not in line.out:
                return False
    return True


def run(path):
    lk = core.lock()
    ctx = Ctx('replay', 'quick', 0)
    try:
        core.regenerate(ctx)
        core.build_model(ctx)
        core.build_harness(ctx)
        ops, env, extra, header = load(path)
        print('\n'.join(header))
        if not ops:
            print('(no operation list: this replay names a broken proof or correspondence obligation)')
            return 0
        w = World('replay')
        w.ops = ops
        probs, impl, model = core.correspond(ctx, 'replay', [w], env)
        for i, op in enumerate(ops):
            print('op   %3d: %s' % (i, op[:200]))
            if i < len(impl):
                print('  impl : %s' % (impl[i] if os.environ.get('VERIF_FULL') else impl[i][:400]))
            if model and i < len(model) and (i >= len(impl) or not core.lines_agree(impl[i], model[i])):
                print('  model: %s' % model[i][:400])
        for p in probs:
            print('PROBLEM', p['kind'], p['detail'])
        return 1 if probs else 0
    finally:
        ctx.cleanup()
