"""Suite `json.lens` (C15, C16): the Lean model of gjson path lookup and sjson replacement
(lean/GoSnaps/JsonPath.lean: parsePath / jsonGet / jsonSet / stringify) against the real libraries,
called as go-snaps' matchers call them (`gjson.GetBytes`, `Exists`, `sjson.SetBytesOptions` with
{Optimistic: true}), and against match.Any / match.Custom themselves.

One `jsonpath` line = one document and 1-3 steps (path, value) applied left to right; per step the
harness and the model report: exists, Result.Index / Indexes, Result.Raw, the JSON text written for
the value, the document after the set, its validity, the value read back.  Lines the model does not
cover (path outside the fragment, sjson would create a member) come back as `skipline cover=0
reason=...`: they are not compared, they are counted, and the implementation's answer is still
examined for behaviour that contradicts the properties (candidate findings, reported without
failing the check).

The generator builds documents as jsongen trees (raw scalars and raw key tokens), so that duplicate
keys, keys equal only after unescaping, keys that need path escapes, numeric keys, empty keys,
ill-formed UTF-8 and every white-space layout reach the text."""
import random
import core, jsongen
from core import World, hx
from jsongen import q

# ---------------------------------------------------------------- reference: gjson's key unescape

def g_unescape(body):
    """gjson.unescape on the bytes between the quotes (independent of the Lean model)"""
    out = bytearray()
    i, n = 0, len(body)
    esc = {ord('b'): 8, ord('f'): 12, ord('n'): 10, ord('r'): 13, ord('t'): 9, ord('\\'): 0x5c, ord('/'): 0x2f, ord('"'): 0x22}

    def enc(r):
        if 0xd800 <= r < 0xe000:
            return b'\xef\xbf\xbd'
        return chr(r).encode('utf-8')

    def h4(b):
        try:
            return int(b[:4], 16) if len(b) >= 4 else 0
        except ValueError:
            return 0
    while i < n:
        c = body[i]
        if c < 0x20:
            break
        if c != 0x5c:
            out.append(c)
            i += 1
            continue
        i += 1
        if i >= n:
            break
        e = body[i]
        if e == ord('u'):
            if i + 5 > n:
                break
            r = h4(body[i + 1:i + 5])
            i += 5
            if 0xd800 <= r < 0xe000 and n - i >= 6 and body[i] == 0x5c and body[i + 1] == ord('u'):
                r2 = h4(body[i + 2:i + 6])
                r = 0x10000 + ((r - 0xd800) << 10) + (r2 - 0xdc00) if (r < 0xdc00 and 0xdc00 <= r2 < 0xe000) else 0xfffd
                i += 6
            out += enc(r)
        elif e in esc:
            out.append(esc[e])
            i += 1
        else:
            break
    return bytes(out)


def gkey(tok):
    body = tok[1:-1]
    return g_unescape(body) if b'\\' in body else body


# ---------------------------------------------------------------- documents

PLAIN_KEYS = [b'a', b'b', b'c', b'id', b'name', b'm', b'n', b'x', b'y', b'user', b'items', b'k1', b'A', b'Z_9', b'total', b'arr']
ESC_KEYS = [b'fav.movie', b'a.b', b'.', b'..', b'a*b', b'*', b'a?', b'?', b'a#b', b'#', b'#x', b'a|b', b'|', b'@a', b'@this', b'@reverse', b'a@b',
            b':k', b':1', b'a:b', b'[b', b'{c', b'!x', b'!true', b'a\\\\b', b'\\\\', b'a\\"b', b'\\u005c', b'x.y.z', b'#.m', b'a.#', b'k\\\\.d']
NUM_KEYS = [b'0', b'1', b'2', b'01', b'10', b'-1', b'-0', b'00', b'1e1', b'18446744073709551616', b'3']
ODD_KEYS = [b'', b' ', b'user-id', b'first name', b'sp ace', b'a-b', b'a/b', b'\\/', b'\xc3\xa9', b'\\u00e9', b'\\u00E9', b'\xf0\x9f\x98\x80',
            b'\\ud83d\\ude00', b'\\ud800', b'\\udc00', b'\\ud800\\u0041', b'\\udc00\\ud800', b'\\ud800x', b'\xff', b'\xed\xa0\x80', b'\xe2\x80\xa8',
            b'\\n', b'\\t', b'\\u0000', b'\\u001f', b'\x7f', b'a,b', b'a"'.replace(b'"', b'\\"'), b'{', b'}', b'[', b']', b'a=b', b'a b.c', b'~', b'%s', b'z{']
TWINS = [(b'a', b'\\u0061'), (b'\xc3\xa9', b'\\u00e9'), (b'/', b'\\/'), (b'\\n', b'\\u000a'), (b'\xef\xbf\xbd', b'\\ud800'), (b'\\ud800', b'\\udc00'),
         (b'A', b'\\u0041'), (b'.', b'\\u002e'), (b'0', b'\\u0030'), (b'#', b'\\u0023'), (b'a.b', b'a\\u002eb')]


def key_pool(r):
    k = r.random()
    if k < 0.45:
        return r.choice(PLAIN_KEYS)
    if k < 0.65:
        return r.choice(ESC_KEYS)
    if k < 0.78:
        return r.choice(NUM_KEYS)
    if k < 0.93:
        return r.choice(ODD_KEYS)
    return r.choice(jsongen.BODIES)


def lens_keys(r, n, flavour):
    ks = []
    while len(ks) < n:
        if flavour == 'twin' and r.random() < 0.5 and n - len(ks) >= 2:
            a, b = r.choice(TWINS)
            ks += [a, b]
        elif flavour == 'dup' and ks and r.random() < 0.45:
            ks.append(r.choice(ks))
        else:
            c = key_pool(r)
            if flavour == 'distinct' and any(gkey(q(c)) == gkey(q(x)) for x in ks):
                continue
            ks.append(c)
    if flavour != 'distinct':
        r.shuffle(ks)
    return [q(k) for k in ks[:n]]


def records(r, depth, maxdepth):
    """an array of objects sharing some member names, some elements lacking them, some not objects"""
    names = r.sample([b'm', b'id', b'name', b'x-x', b'x.x', b'v', b'0', b'\xc3\xa9', b'n'], r.randint(1, 3))
    xs = []
    for _ in range(r.choice([0, 1, 2, 3, 3, 4, 6])):
        k = r.random()
        if k < 0.70:
            ms = []
            for nm in names:
                if r.random() < 0.7:
                    ms.append((q(nm), lens_tree(r, depth + 2, maxdepth)))
                    if r.random() < 0.08:
                        ms.append((q(nm), jsongen.scalar(r)))          # duplicate inside an element
            if r.random() < 0.3:
                ms.append((q(r.choice(PLAIN_KEYS)), jsongen.scalar(r)))
            r.shuffle(ms)
            xs.append(('o', ms))
        elif k < 0.85:
            xs.append(jsongen.scalar(r))
        else:
            xs.append(('a', [jsongen.scalar(r) for _ in range(r.randint(0, 3))]))
    return ('a', xs)


def lens_tree(r, depth, maxdepth, flavour=None):
    k = r.random()
    if depth >= maxdepth or (depth > 0 and k < 0.28):
        return jsongen.scalar(r)
    if k < 0.62 or depth == 0 and k < 0.8:
        n = r.choice([0, 1, 2, 2, 3, 3, 4, 5, 7])
        fl = flavour or r.choice(['distinct'] * 5 + ['dup', 'twin'])
        ks = lens_keys(r, n, fl)
        vals = []
        for kk in ks:
            same = [v for (k2, v) in zip(ks, vals) if gkey(k2) == gkey(kk)]
            if same and r.random() < 0.6:
                # a later member of the same name: give it a container too, so that a path can reach INTO it
                # (gjson backtracks into it when the first one lacks the rest of the path)
                vals.append(lens_tree(r, depth + 1, max(maxdepth, depth + 2), 'distinct') if r.random() < 0.8 else jsongen.scalar(r))
            else:
                vals.append(lens_tree(r, depth + 1, maxdepth))
        return ('o', list(zip(ks, vals)))
    if k < 0.75:
        return records(r, depth, maxdepth)
    n = r.choice([0, 1, 2, 3, 3, 5, 8])
    return ('a', [lens_tree(r, depth + 1, maxdepth) for _ in range(n)])


def has_dup(t):
    return jsongen.has_dup_or_twin(t, gkey)


# ---------------------------------------------------------------- paths

SAFE = set(b'abcdefghijklmnopqrstuvwxyzABCDEFGHIJKLMNOPQRSTUVWXYZ0123456789_')


def esc_comp(r, name, style):
    """the text of a component that stands for the member name `name`"""
    if style == 'raw':
        return name
    out = bytearray()
    for i, c in enumerate(name):
        if style == 'full':
            need = c not in SAFE
        elif style == 'gjson':          # gjson.Escape: leaves <= ' ', > '~', '_', '-', ':' and alphanumerics alone
            need = not (c <= 0x20 or c > 0x7e or c in SAFE or c in b'-:')
        else:                           # 'min': what the path syntax requires
            need = c in b'.*?#|@\\' or (i == 0 and c in b':[{!')
        if need:
            out.append(0x5c)
        out.append(c)
    if style in ('full', 'min') and len(name) >= 2 and name[:1] == b'-' and name[1:].isdigit():
        out = bytearray(b'\\' + name)
    if style == 'spurious' or (style == 'full' and r.random() < 0.05):
        # backslashes in front of ordinary bytes are allowed
        out = bytearray()
        for c in name:
            out += bytes([0x5c, c])
    return bytes(out)


def idx_text(r, i):
    k = r.random()
    if k < 0.8:
        return str(i).encode()
    if k < 0.9:
        return b'0' * r.randint(1, 3) + str(i).encode()
    if k < 0.95:
        return str((1 << 64) + i).encode()
    return b'\\' + str(i).encode()          # escaped: not an index


def walk(r, t, style, maxlen=None, want=None):
    """a random route from the root: (components, node reached, nodes passed)"""
    comps, node = [], t
    n = maxlen if maxlen is not None else r.choice([1, 1, 2, 2, 3, 3, 4, 5, 6])
    for _ in range(n):
        if node[0] == 'o' and node[1]:
            k, v = r.choice(node[1])
            comps.append(esc_comp(r, gkey(k), style))
            node = v
        elif node[0] == 'a' and node[1]:
            i = r.randrange(len(node[1]))
            comps.append(idx_text(r, i))
            node = node[1][i]
        else:
            break
        if want and node[0] == want and r.random() < 0.6:
            break
    return comps, node


def arrays_in(t, pre=()):
    if t[0] == 'a':
        yield list(pre), t
        for i, x in enumerate(t[1]):
            yield from arrays_in(x, pre + (('i', i),))
    elif t[0] == 'o':
        for k, x in t[1]:
            yield from arrays_in(x, pre + (('k', gkey(k)),))


OUTSIDE = [b'*', b'a*', b'?', b'na?e', b'#', b'arr.#', b'items.#', b'arr.#(m==1).m', b'arr.#(m>0)#.m', b'#(id=1)', b'@this', b'@reverse', b'@valid',
           b'arr|0', b'a|@pretty', b'a.@this', b'items.@reverse', b'-1', b'arr.-1', b'items.-1', b':1', b':k', b'a.:k', b'..0', b'..#', b'', b'#.#.m',
           b'arr.#.x.#.y', b'[a,b]', b'{a,b}', b'a.[b', b'a.{c', b'!true', b'a.!x', b'a#b', b'@a', b'a@b', b'arr.#.#', b'#.#', b'items.#.id.#']


def gen_path(r, t, docstyle):
    """(kind, path bytes)"""
    k = r.random()
    style = docstyle if r.random() < 0.7 else r.choice(['full', 'min', 'gjson', 'raw', 'spurious'])
    comps, node = walk(r, t, style)
    if k < 0.38 or not comps:
        kind = 'existing' if style != 'raw' else 'raw-unescaped'
        if style == 'gjson':
            kind = 'existing-gjsonEscape'
        if not comps:
            comps, kind = [r.choice([b'a', b'0', b'zz'])], 'missing'
    elif k < 0.46:
        kind = 'missing'
        miss = r.choice([b'zz_none', b'nope', b'A0', b'not-there', b'missing key', b'\xc3\xb8'])
        if r.random() < 0.5 or node[0] not in 'oa':
            comps[-1] = miss
        else:
            comps.append(miss)
    elif k < 0.52:
        kind = 'through-scalar'
        comps, node = walk(r, t, style, maxlen=8)
        comps.append(r.choice([b'x', b'0', b'a', b'#', b'1', b'length']))
        if r.random() < 0.3:
            comps.append(r.choice([b'y', b'0']))
    elif k < 0.58:
        kind = 'index-on-object'
        comps, node = walk(r, t, style, want='o')
        comps.append(r.choice([b'0', b'1', b'2', b'01', b'10', b'3']))
        if r.random() < 0.3:
            comps.append(r.choice([b'a', b'0']))
    elif k < 0.64:
        kind = 'key-on-array'
        comps, node = walk(r, t, style, want='a')
        comps.append(r.choice([b'a', b'name', b'length', b'first', b'1x', b'x1', b'0x1', b'1.5', b'+1', b' 1', b'1 ', b'\\1', b'1\\', b'a\\.b', b'\xc3\xa9']))
    elif k < 0.70:
        kind = 'out-of-range'
        comps, node = walk(r, t, style, want='a')
        n = len(node[1]) if node[0] == 'a' else 0
        comps.append(str(r.choice([n, n + 1, n + 7, 999, 9223372036854775807, 9223372036854775808, (1 << 64) - 1, (1 << 64) + n, 10 ** 30])).encode())
    elif k < 0.90:
        arrs = list(arrays_in(t))
        if not arrs:
            return 'existing', b'.'.join(comps)
        pre, arr = r.choice([a for a in arrs if a[1][1] and any(x[0] in 'oa' for x in a[1][1])] or arrs)
        comps = [esc_comp(r, v, style) if tag == 'k' else str(v).encode() for tag, v in pre]
        comps.append(b'#')
        cands = [x for x in arr[1] if x[0] in 'oa' and x[1]]
        if cands and r.random() < 0.85:
            kind = 'each'
            sub, _ = walk(r, r.choice(cands), style, maxlen=r.choice([1, 1, 1, 2, 3]))
            comps += sub
        else:
            kind = 'each-missing'
            comps.append(r.choice([b'q', b'zz', b'0', b'm']))
    else:
        kind = 'outside'
        p = r.choice(OUTSIDE)
        if r.random() < 0.5 and comps:
            # an out-of-fragment construct spliced into a route of THIS document
            tail = r.choice([b'*', b'?', b'#', b'@this', b'#.#', b'-1', b':' + comps[-1], b'#(a=1)', comps[-1] + b'*', comps[-1][:1] + b'?' + comps[-1][2:], b'|0'])
            p = b'.'.join(comps[:-1] + [tail]) if r.random() < 0.7 else b'.'.join(comps + [tail])
        return kind, p
    return kind, b'.'.join(comps)


# ---------------------------------------------------------------- values

STR_VALUES = [b'<Any value>', b'<Type:string>', b'<Type:float64>', b'', b'x', b'PH', b'a longer placeholder than most of the values it replaces',
              b'say "hi"', b'back\\slash', b'tab\there', b'line\nbreak', b'cr\rlf\n', b'\x00', b'\x01\x02', b'\x08\x0c', b'\x1f', b'\x7f', b'a<b>c&d',
              b'<a "b">', b'\xc3\xa9', b'\xf0\x9f\x98\x80', b'\xe2\x80\xa8', b'\xe2\x80\xa9x', b'\xe2\x80\xaa', b'\xff', b'\xc3', b'\xed\xa0\x80', b'\xf4\x90\x80\x80',
              b'ok\xffbad', b'{"not":"json"}', b'[1,2]', b'null', b'true', b'12', b'---', b'[TestA - 1]', b'$1', b'%s', b'\xef\xbf\xbd', b'\xc2\x80', b'e\xcc\x81',
              b'q"\\\x00<\xff\xe2\x80\xa8']
RAW_VALUES = [b'null', b'true', b'false', b'0', b'-1', b'3.5', b'42', b'1e21', b'1e-7', b'12345678901234567890', b'-0', b'0.1', b'1E2', b'"s"', b'"a\\"b"',
              b'"\\u00e9"', b'"<&>"', b'{}', b'[]', b'[1,2,3]', b'[[],{}]', b'{"k":1}', b'{"b":1,"a":[true,null,"x"]}', b'{"z":{"y":{"x":[]}}}', b'[null]',
              b'{"a.b":1,"#":2}', b'[1.0,2e0]', b'" "', b'""']


def gen_value(r):
    k = r.random()
    if k < 0.08:
        return 'none', '-'
    if k < 0.62:
        return 'string', 's:' + hx(r.choice(STR_VALUES))
    v = r.choice(RAW_VALUES)
    kind = {b'n': 'null', b't': 'bool', b'f': 'bool', b'"': 'rawstring', b'{': 'object', b'[': 'array'}.get(v[:1], 'number')
    return kind, 'r:' + hx(v)


# ---------------------------------------------------------------- worlds

def _fields(raw):
    """a result line -> list of per-step dicts"""
    steps, cur = [], None
    for f in raw.split(' ')[1:]:
        k, _, v = f.partition('=')
        if k == 'exists':
            cur = {}
            steps.append(cur)
        if cur is not None:
            cur[k] = v
    return steps


def value_end(doc, i):
    """end offset of the JSON value starting at doc[i] (a well-formed document is assumed)"""
    c = doc[i:i + 1]
    if c == b'"':
        j = i + 1
        while j < len(doc):
            if doc[j] == 0x5c:
                j += 2
                continue
            if doc[j] == 0x22:
                return j + 1
            j += 1
        return len(doc)
    if c in b'{[':
        depth, j = 0, i
        while j < len(doc):
            ch = doc[j]
            if ch == 0x22:
                j = value_end(doc, j)
                continue
            if ch in b'{[':
                depth += 1
            elif ch in b'}]':
                depth -= 1
                if depth == 0:
                    return j + 1
            j += 1
        return len(doc)
    j = i
    while j < len(doc) and doc[j] not in b' \t\r\n,]}':
        j += 1
    return j


def is_multi(p):
    """does the path text have a component that is exactly an unescaped `#`"""
    comps, cur, i = [], bytearray(), 0
    while i < len(p):
        if p[i] == 0x5c:
            cur += p[i:i + 2]
            i += 2
            continue
        if p[i] == 0x2e:
            comps.append(bytes(cur))
            cur = bytearray()
        else:
            cur.append(p[i])
        i += 1
    comps.append(bytes(cur))
    return b'#' in comps


def anomalies(doc, steps, paths):
    """behaviour of the REAL libraries on one line that contradicts C15/C16 as stated: per step a list of
    classes.  doc: the document of the first step (bytes); steps: result fields of the implementation."""
    out = []
    cur = doc
    for st, pth in zip(steps, paths):
        cls = []
        if st.get('exists') == '1' and st.get('set', '-') not in ('-',) and not st['set'].startswith('!'):
            new = core.unhx(st['set'])
            enc = core.unhx(st['enc'])
            if st.get('valid') == '0':
                cls.append('set-result-is-not-JSON')
            idx = [] if st['idx'] == '-' else [int(x) for x in st['idx'].split(',')]
            exp = cur
            for i in sorted(idx, reverse=True):
                exp = exp[:i] + enc + exp[value_end(exp, i):]
            if exp != new and st.get('valid') != '0':
                cls.append('written-elsewhere-than-read')
            if not is_multi(pth) and st.get('get2') != st.get('enc') and st.get('valid') != '0':
                cls.append('read-back-differs')
            if st.get('any', '1') != '1':
                cls.append('matcher-differs-from-library-calls')
            cur = new
        elif st.get('set', '-').startswith('!'):
            cls.append('set-error-on-existing-path')
        out.append(cls)
    return out


def lens_world(r, i, optimistic=True):
    """optimistic: go-snaps' own sjson option (from the generated facts); every line is run with it (and the
    matchers cross-checked), a few lines also with the other value"""
    w = World('jl-%d' % i)
    maxdepth = r.choice([1, 2, 2, 3, 3, 4, 5])
    flavour = r.choice([None, None, None, 'distinct', 'distinct', 'dup', 'twin'])
    t = lens_tree(r, 0, maxdepth, flavour)
    if t[0] not in 'oa' and r.random() < 0.8:
        t = ('o', [(q(b'root'), t), (q(b'list'), ('a', [t, t]))])
    lay = r.random()
    doc = jsongen.compact(t) if lay < 0.45 else jsongen.spaced(r, t, r.choice([0.2, 0.5, 0.9]))
    docstyle = r.choice(['full', 'full', 'min', 'gjson'])
    lines = []
    for _ in range(r.choice([4, 6, 8])):
        nsteps = r.choice([1, 1, 1, 1, 2, 2, 3])
        steps = []
        for s in range(nsteps):
            kind, p = gen_path(r, t, docstyle)
            if s > 0 and r.random() < 0.35:
                # a later step related to an earlier one: the same path again, a prefix, an extension
                k0, p0 = steps[r.randrange(len(steps))][:2]
                rel = r.random()
                if rel < 0.4:
                    kind, p = 'again:' + k0.split(':')[-1], p0
                elif rel < 0.7 and b'.' in p0:
                    kind, p = 'prefix-of-earlier', p0.rsplit(b'.', 1)[0]
                else:
                    kind, p = 'below-earlier', p0 + b'.' + r.choice([b'a', b'0', b'k', b'x'])
            vk, vs = gen_value(r)
            steps.append((kind, p, vk, vs))
        own = 'o%da' % (1 if optimistic else 0)
        tail = ' ' + hx(doc) + ''.join(' %s %s' % (hx(p), vs) for _, p, _, vs in steps)
        lines.append((w.add('jsonpath ' + own + tail), steps, own))
        if r.random() < 0.15:
            other = 'o%d' % (0 if optimistic else 1)
            lines.append((w.add('jsonpath ' + other + tail), steps, other))
    w.meta = dict(depth=jsongen.depth_of(t), size=len(doc), dup=has_dup(t), layout='compact' if lay < 0.45 else 'spaced', lines=lines, doc=doc,
                  top=t[0])
    return w


def fixed_worlds(optimistic=True):
    """hand-written lines: every documented difference between gjson and sjson, every rejected path form"""
    cases = [
        (b'{"a":{"x":1},"a":{"y":2}}', [(b'a.y', 's:' + hx(b'PH'))]),
        (b'{"a":{"x":1},"a":{"y-z":2}}', [(b'a.y-z', 's:' + hx(b'PH'))]),
        (b'{"a":1,"a":{"y-z":2}}', [(b'a.y-z', 's:' + hx(b'PH'))]),
        (b'{"a":1,"a":2}', [(b'a', 's:' + hx(b'PH'))]),
        (b'{"a-b":1,"a-b":2}', [(b'a-b', 's:' + hx(b'PH'))]),
        (b'{":k":"x"}', [(b':k', 's:' + hx(b'PH'))]),
        (b'{":k":"x"}', [(b'\\:k', 's:' + hx(b'PH'))]),
        (b'{":1":"x","1":"y"}', [(b':1', 's:' + hx(b'PH'))]),
        (b'[[{"m":1}],[{"m":2}]]', [(b'#.#.m', 's:' + hx(b'PH'))]),
        (b'{"a":[{"x":[{"y":1}]}]}', [(b'a.#.x.#.y', 's:' + hx(b'PH'))]),
        (b'{"arr":[{"m":1},{"n":2},{"m":3}]}', [(b'arr.#.m', 's:' + hx(b'PH')), (b'arr.#.q', 's:' + hx(b'PH')), (b'arr.#', 's:' + hx(b'PH'))]),
        (b'{"a":["x","y"]}', [(b'a.01', 's:' + hx(b'P')), (b'a.18446744073709551616', 'r:' + hx(b'7')), (b'a.\\1', 's:' + hx(b'P')), (b'a.2', 's:' + hx(b'P'))]),
        (b'{"a":{"01":"x","1":"y"}}', [(b'a.01', 's:' + hx(b'P')), (b'a.1', 's:' + hx(b'Q'))]),
        (b'{"#":1,"a":{"#":{"m":1}}}', [(b'#', '-'), (b'a.#.m', 's:' + hx(b'P')), (b'\\#', 's:' + hx(b'Q'))]),
        (b'{"":{"":1},"a":{"":2}}', [(b'.', 's:' + hx(b'P')), (b'a.', 's:' + hx(b'Q')), (b'', 's:' + hx(b'R'))]),
        (b'{"fav.movie":"x","a*b":1,"a?":2,"a|b":3,"@a":4,"a\\\\b":5}', [(b'fav\\.movie', 's:' + hx(b'P')), (b'a\\*b', 'r:' + hx(b'null')),
                                                                            (b'a\\|b', 'r:' + hx(b'[1]'))]),
        (b'{"fav.movie":"x","a*b":1,"a?":2,"a|b":3,"@a":4,"a\\\\b":5}', [(b'a\\?', 's:' + hx(b'P')), (b'\\@a', 's:' + hx(b'P')), (b'a\\\\b', 's:' + hx(b'P'))]),
        (b' { "a" : [ 1 , {"b" :  null } ] } ', [(b'a.1.b', 's:' + hx(b'<Any value>')), (b'a.0', 'r:' + hx(b'{"k":[]}')), (b'a.0.k', 's:' + hx(b'\xff"'))]),
        (b'"top-level {\\"k\\":1} string"', [(b'k', 's:' + hx(b'P'))]),
        (b'5', [(b'a', 's:' + hx(b'P'))]),
        (b'[1,[2,[3,{"k":[4]}]]]', [(b'1.1.1.k.0', 's:' + hx(b'P')), (b'1.1.1.k', 'r:' + hx(b'{}')), (b'1.1.1.k.0', 's:' + hx(b'P'))]),
        (b'{"id":[],"id":{"|":1,"a":2}}', [(b'id.\\|', 's:' + hx(b'P')), (b'id.a', 's:' + hx(b'Q'))]),
        (b'[[1,2],{"":{"":{"0":5}}},"x"]', [(b'#...0', 'r:' + hx(b'[null]')), (b'#..', '-'), (b'1...0', 's:' + hx(b'P'))]),
        (b'{"a":["[1,2]",[3,4],"{\\"m\\":1}",{"m":2}]}', [(b'a.#.0', 's:' + hx(b'P')), (b'a.#.m', 's:' + hx(b'Q'))]),
        (b'{"\\ud800\\u0041":1,"\\ud83d\\ude00":2,"\\udc00\\ud800":3}', [(b'\xef\xbf\xbd', 's:' + hx(b'P')), (b'\xf0\x9f\x98\x80', 's:' + hx(b'Q'))]),
    ]
    ws = []
    for n, (doc, steps) in enumerate(cases):
        w = World('jlfix-%d' % n)
        tail = ' ' + hx(doc) + ''.join(' %s %s' % (hx(p), v) for p, v in steps)
        st = [('fixed', p, 'fixed', v) for p, v in steps]
        own, other = 'o%da' % (1 if optimistic else 0), 'o%d' % (0 if optimistic else 1)
        w.meta = dict(depth=0, size=len(doc), dup=False, layout='fixed', lines=[(w.add('jsonpath ' + own + tail), st, own), (w.add('jsonpath ' + other + tail), st, other)],
                      doc=doc, top='?')
        ws.append(w)
    return ws


def jl_stats(ctx, worlds):
    d = ctx.stats['dist']
    cands = {}

    def inc(k, n=1):
        d['json.lens ' + k] = d.get('json.lens ' + k, 0) + n
    for w in worlds:
        impl = getattr(w, 'impl', None) or []
        model = getattr(w, 'model', None) or []
        m = w.meta
        if not impl:
            continue
        inc('documents')
        inc('doc depth=%d' % m['depth'])
        inc('doc size%s' % jsongen.size_bucket(m['size']))
        inc('doc layout=%s' % m['layout'])
        inc('doc top=%s' % m['top'])
        if m['dup']:
            inc('doc with duplicate / unescape-equal keys')
        for idx, steps, opt in m['lines']:
            inc('lines')
            inc('lines with sjson option Optimistic=%s%s' % ('true' if opt.startswith('o1') else 'false', ' (go-snaps\' setting; match.Any / match.Custom cross-checked)' if opt.endswith('a') else ' (the other setting)'))
            inc('line steps=%d' % len(steps))
            ml = model[idx] if idx < len(model) else ''
            covered = not ml.startswith('skipline')
            if covered:
                inc('lines covered (compared with the model)')
            else:
                reason = ([x for x in ml.split(' ') if x.startswith('reason=')] or ['reason=?'])[0]
                inc('lines skipped %s' % reason)
            res = _fields(impl[idx])
            skip_step = None
            if not covered:
                ss = [x for x in ml.split(' ') if x.startswith('step=')]
                skip_step = int(ss[0][5:]) if ss else None
            anom = anomalies(m['doc'], res, [s_[1] for s_ in steps])
            for n, ((kind, p, vk, vs), st) in enumerate(zip(steps, res), 1):
                inc('steps')
                inc('path kind=%s' % kind)
                inc('path components=%d' % min(len(p.split(b'.')), 8))
                inc('value kind=%s' % vk)
                hit = st.get('exists') == '1'
                inc('path kind=%s/%s' % (kind, 'hit' if hit else 'miss'))
                inc('hits' if hit else 'misses')
                if hit and ',' in st.get('idx', ''):
                    inc('multi-value hits with %s targets' % ('2-3' if st['idx'].count(',') < 3 else '4+'))
                if hit and st.get('set', '-') != '-':
                    inc('sets performed')
                if covered or (skip_step is not None and n < skip_step):
                    inc('steps covered' if covered else 'steps before the first uncovered step (not compared)')
                for c in anom[n - 1]:
                    key = c + (' [line covered by the model]' if covered else ' [line outside the model: %s]' % ([x for x in ml.split(' ') if x.startswith('reason=')] or ['?'])[0])
                    inc('candidate: ' + key)
                    op = w.ops[idx]
                    if key not in cands or len(op) < len(cands[key][0]):
                        cands[key] = (op, impl[idx], p)
    for key, (op, res, p) in sorted(cands.items()):
        path = core.write_replay(ctx, 'json.lens candidate finding: ' + key, ['world candidate', op],
                                 'the real gjson/sjson (as called by match.Any) on this line:\n' + res[:1500], None, dict(kind='candidate', suite='json.lens'))
        # (the classes met so far are recorded as known findings D17 - duplicate member names -, D18 - a name starting
        # with ':' - and D19 - multi-value `#` paths; KNOWN_FINDINGS.txt, witnesses replayed by the C15 / C16 checks)
        ctx.notes.append('json.lens behaviour contradicting C15/C16 outside the model (see known findings D17-D19; not failing the check): %s; smallest generated line: path %r, replay %s' % (key, p, path))
    return cands


def run_json_lens(ctx):
    r = random.Random(ctx.seed * 104729 + 1516)
    n = 4000 if ctx.tier == 'quick' else 40000
    optimistic = bool((ctx.facts.get('bools') or {}).get('sjsonOptimistic', True))
    worlds = fixed_worlds(optimistic) + [lens_world(r, i, optimistic) for i in range(n)]
    from suites import run_suite
    run_suite(ctx, 'json.lens', worlds, known=None, chunk=600)
    jl_stats(ctx, worlds)
    ctx.notes.append('json.lens: the Lean model of gjson path lookup and sjson replacement (lean/GoSnaps/JsonPath.lean) is compared with the real '
                     'libraries (called with go-snaps\' options, and through match.Any / match.Custom) on every covered line: existence, offsets, raw '
                     'value, encoded placeholder, document after the set, validity, read-back; the theorems of Props/C16Json.lean are about that model')
