"""Generators: structured, mostly valid inputs built from the repo's own vocabulary, plus a
malformed stream.  Every random choice comes from one random.Random seeded from VERIF_SEED."""
import json, random
import collide
from core import hx, World

NAMES = ['TestZ/v01', 'TestZ/v1', 'TestN/case_9', 'TestN/case_10', 'TestN/case_100', 'TestN/case_19', 'TestN/case_12', 'TestN/case_2', 'TestI/index[0]', 'TestA', 'TestAB', 'TestX/[a]', 'TestV2', 'TestA/case_2', 'TestR/ratio/1.25', 'TestA/x', 'TestA/x/y', 'TestA/x#01', 'TestB', 'TestB/sub_case', 'Test1', 'Test01',
         'Test10', 'TestZ/a/b/c', 'TestLong/with_some-chars.and:colon', 'TestÜnicode/ß', 'TestA/x_-_1', 'Test_x']
# punctuation, spaces and non-ASCII in (sub)test names: everything a table-driven test named after a route, a
# path, a key or a sentence produces.  File systems other than the one the tests run on reserve some of
# these (`\\ : * ? " < > |`), shells and regexps others; for go-snaps they are ordinary name bytes.  Pairs
# differing only by such a character versus `_` are included (they must stay two locations).  `%` is
# kept apart (PCT_NAMES, known finding D12).
PUNCT_NAMES = ['TestQ/GET_/users?page=2', 'TestQ/GET_/users_page=2', 'TestW/C:\\dir\\file.txt', 'TestW/C__dir_file.txt', 'TestS/a*b', 'TestS/a_b',
               'TestS/say_"hi"', 'TestL/<nil>', 'TestL/_nil_', 'TestP/a|b', 'TestK/key:value', 'TestK/key_value', 'TestSp/with space', 'TestSp/with_space',
               'TestE/emoji_\U0001F600', 'TestT/a~b', "TestT/it's", 'TestC/a,b;c', 'TestEq/k=v&x=1', 'TestPl/a+b', 'TestAt/user@host',
               'TestBr/{x}', 'TestPa/(x)', 'TestD/$HOME', 'TestBt/`cmd`', 'TestEx/wow!', 'TestCa/a^b', 'TestJp/\u65e5\u672c\u8a9e', 'TestNb/a\u00a0b',
               'TestCo/e\u0301', 'TestCo/\u00e9']
FAMILIES = [['TestA', 'TestAB', 'TestA/x', 'TestA/x/y', 'TestA/x#01', 'TestA/case_2', 'TestA/x_-_1'], ['TestB', 'TestB/sub_case'],
            ['Test1', 'Test10', 'Test01'], ['TestN/case_9', 'TestN/case_10', 'TestN/case_100', 'TestN/case_19', 'TestN/case_12', 'TestN/case_2'], ['TestZ/v1', 'TestZ/v01', 'TestZ/a/b/c']]
PCT_NAMES = ['TestP/100%_done', 'TestQ/%d', 'TestR/50%s']
UNRECOGNISED = ['FuzzX/seed#0', 'BenchmarkY', 'ExampleZ']


MID_SIZES = [4095, 4096, 4097, 5000, 8192, 8193, 12288]
BIG_SIZES = [65535, 65536, 65537]


def MIDLINE(n):
    """a line of exactly n bytes whose content depends on the position (a cut or a shift shows)"""
    unit = b'0123456789abcdefghijklmnopqrstuvwxyzABCDEFGHIJKLMNOPQRSTUVWXYZ+/'
    return (unit * (n // len(unit) + 1))[:n]


class Gen:
    def __init__(self, seed):
        self.r = random.Random(seed)

    # ---------- text bodies
    def line(self, ids=(), allow=()):
        r = self.r
        k = r.random()
        if k < 0.10:
            return b''
        if k < 0.16:
            return r.choice([b' ', b'  ', b'     '])
        if k < 0.26:
            return r.choice([b'---', b'/-/-/-/', b'--- ', b' ---', b'----', b'--', b'/-/-/-/ ', b'-/-/-/-'])
        if k < 0.31:
            return r.choice([b'[T - 1', b'[TestA - 1', b'TestA - 1]', b'[TestA - x]', b'[Test]', b'[]', b'[Test - ', b'[ - 1]'])
        if k < 0.36 and 'shadow' in allow and ids:
            return b'[' + r.choice(list(ids)) + b']'
        if k < 0.39:
            # header-like lines of slots that exist nowhere (a log quoting some other test)
            # ... also behind the characters a storage-level escape would use (a backslash, a second bracket): a line
            # that already LOOKS escaped must come back as it went in
            return r.choice([b'[TestGhost - 7]', b'[TestLogin - 2]', b'[TestA/never - 1]', b'\\[TestGhost - 7]', b'\\\\[TestLogin - 2]',
                             b'\\[TestParser/empty_input - 2]', b'[[TestGhost - 7]]', b'\\---', b'\\/-/-/-/', b'\\', b'\\[', b'//-/-/-/'])
        if k < 0.42 and ids:
            # lines CONTAINING the header of a slot in play without being equal to it
            i = r.choice(list(ids))
            return r.choice([b'see also [' + i + b']', b'[' + i + b'] was here', b' [' + i + b']', b'[' + i + b'] ', b'x[' + i + b']y', b'\\[' + i + b']', b'\\\\[' + i + b']'])
        if k < 0.46:
            return bytes(r.choice([0x80, 0xff, 0xfe, 0xc3, 0x28, 0xe2, 0x82, 0x00, 0x1b, 0x7f, 0x41, 0x20]) for _ in range(r.randint(1, 8)))
        if k < 0.50:
            return b'a\rb' if r.random() < 0.5 else b'\rstart'
        if k < 0.53 and 'cr' in allow:
            return b'ends with cr\r'
        if k < 0.55 and 'long' in allow:
            return b'L' * r.choice([70000, 300000])
        if k < 0.58:
            # a line with a twin that is equal to it under a hash / prefix / case / whitespace /
            # normalisation shortcut (collide.py); suites.mutate_text swaps it for the twin
            return collide.some_line(r)
        if k < 0.60 and 'mid' in allow:
            # one line around the sizes of bufio's default buffers (4096: bufio.Reader / first Scanner
            # window; 65536: bufio.MaxScanTokenSize): minified JSON, base64 blobs, long log lines
            return MIDLINE(r.choice(MID_SIZES))
        if 0.60 <= k < 0.64:
            # text that is a TEMPLATE for some replace functions (regexp.Expand: $1, $name, ${name})
            return r.choice([b'DATA_DIR: ${HOME}/data', b'PATH=$PATH:/bin', b'price: $10 per unit', b'$1$2', b'a$b$', b'${', b'$$', b'cost $0.50', b'\\1 \\0 $&'])
        words = ['50% done', 'a%20b', '100%', '%s %d %v', 'foo', 'bar', 'baz', 'hello world', '{', '}', '"a": 1,', 'key: value', '- item', '# comment', 'x' * r.randint(1, 40),
                 'int(5)', 'map[string]int{', '    "k": 1,', '}', '\u00e9\u00e8', 'two  spaces']
        return r.choice(words).encode()

    def body(self, ids=(), allow=()):
        r = self.r
        n = r.choice([0, 1, 1, 1, 2, 2, 3, 4, 6])
        ls = [self.line(ids, allow) for _ in range(n)]
        if r.random() < 0.05:
            i = r.randint(0, len(ls))
            ls[i:i] = [b'---', b'---'] + ([b'---'] if r.random() < 0.3 else [])     # consecutive terminator lines
        if 'big' in allow and r.random() < 0.25:
            # many short lines: entries that straddle the scanner's 4 KiB / 64 KiB buffer windows
            ls += [b'line %04d %s' % (k, b'v' * (k % 23)) for k in range(r.choice([150, 400, 400, 2500]))]
        b = b'\n'.join(ls)
        if 'crlf' in allow and r.random() < 0.5:
            # a value with CR LF line endings throughout (raw HTTP response, CSV, Windows text)
            b = r.choice([b'HTTP/1.1 200 OK\r\nContent-Type: text/plain\r\n\r\n', b'id,name\r\n1,x\r\n', b'']) + b'\r\n'.join(ls) + (b'\r\n' if r.random() < 0.5 else b'')
        if r.random() < 0.25:
            b = b'\n' * r.randint(1, 2) + b
        if r.random() < 0.3:
            b = b + b'\n' * r.randint(1, 3)
        return b

    @staticmethod
    def body_flags(b, ids=()):
        f = set()
        ls = b.split(b'\n')
        if any(l.endswith(b'\r') for l in ls):
            f.add('cr')
        if any(l.startswith(b'[') and l.endswith(b']') and l[1:-1] in ids for l in ls):
            f.add('shadow')
        if any(l in (b'---', b'/-/-/-/') for l in ls):
            f.add('tok')
        return f

    def names(self, k, allow=()):
        pool = list(NAMES)
        if 'pct' in allow:
            pool += PCT_NAMES
        if 'punct' in allow:
            pool += PUNCT_NAMES
        if 'unrec' in allow:
            pool += UNRECOGNISED
        self.r.shuffle(pool)
        if k > 1 and self.r.random() < 0.3:
            # names that are prefixes of each other (a test, its subtests, its longer-named neighbour) in ONE
            # world: whatever is keyed by test name must be keyed by the whole name
            fam = [n for n in self.r.choice(FAMILIES) if n in pool]
            self.r.shuffle(fam)
            fam = fam[:self.r.randint(2, max(2, k))]
            pool = fam + [n for n in pool if n not in fam]
        return [n.encode() for n in pool[:k]]

    # ---------- JSON documents
    def json_value(self, depth=0):
        r = self.r
        k = r.random()
        if depth >= 3 or k < 0.45:
            return r.choice([0, 1, -1, 3.5, 1e10, True, False, None, '', 'str', 'with "quotes"', 'uni\u00e9', 'a/b', 12345678901234567,
                             '---', '[TestA - 1]', 'line\nbreak', '<p>fish & chips</p>', 'double-encoded {"h":"\\u003cb\\u003e \\u0026"}', 'C:\\users\\u0026co'])
        if k < 0.75:
            keys = r.sample(['a', 'b', 'c', 'id', 'name', 'k.dot', 'sp ace', '\u00fc', 'z', 'created', 'n'], r.randint(0, 4))
            return {kk: self.json_value(depth + 1) for kk in keys}
        return [self.json_value(depth + 1) for _ in range(r.randint(0, 3))]

    def json_text(self, v):
        r = self.r
        style = r.random()
        if style < 0.4:
            return json.dumps(v, ensure_ascii=False)
        if style < 0.7:
            return json.dumps(v, indent=r.choice([1, 2, 4]), ensure_ascii=r.random() < 0.5)
        return json.dumps(v, separators=(' ,\t', ' :\n '), ensure_ascii=False)

    def bad_json(self):
        return self.r.choice(['', '{', '{"a":1,}', '{"a":1}{"b":2}', 'nul', '[1,2', '{"a":"\x01"}', '{a:1}', "{'a':1}"])

    # ---------- YAML documents
    def yaml_text(self):
        r = self.r
        docs = []
        for _ in range(r.choice([1, 1, 1, 2])):
            ls = []
            if r.random() < 0.3:
                ls.append('# leading comment')
            for k in r.sample(['a', 'b', 'name', 'list', 'nested', 'text', 'n'], r.randint(1, 4)):
                c = r.random()
                if c < 0.4:
                    ls.append('%s: %s' % (k, r.choice(['1', 'true', 'hello', '"quoted"', "'single'", '3.14', 'null', '~', '${HOME}/data', '$PATH', '$10 per unit', '"$1"'])))
                elif c < 0.6:
                    ls.append('%s:' % k)
                    for i in range(r.randint(1, 3)):
                        ls.append('  - item%d' % i)
                elif c < 0.8:
                    ls.append('%s:' % k)
                    ls.append('  inner: %d # trailing comment' % r.randint(0, 9))
                    ls.append('  other: x')
                else:
                    ls.append('%s: |' % k)
                    ls.append('  block line')
                    ls.append('  ---')
                    ls.append('  more')
            docs.append('\n'.join(ls))
        if r.random() < 0.12:
            docs.append('/-/-/-/')          # a document that is the escape token itself (a plain scalar)
        t = '\n---\n'.join(docs)
        if r.random() < 0.1:
            t = '---\n' + t          # explicit document-start marker on the first line
        if r.random() < 0.1:
            t = t.replace('hello', '15% of a%20b', 1)
        if r.random() < 0.6:
            t += '\n'
        if r.random() < 0.15:
            t += '\n'
        return t

    def bad_yaml(self):
        return self.r.choice(['a: [1, 2', 'a: b: c: d', '\t- x\n\t\ty', 'key: "unterminated', '{a: 1', 'a:\n  - b\n c',
                              # syntactically fine, rejected when decoded: undefined aliases, a scalar violating its tag
                              'settings: *bsae\n', 'a: &x 1\nb: *y\n', '- *second\n', 'ok: 1\n---\nlater: *nowhere\n', 'enabled: !!bool maybe\n'])


def cfg_line(n, dir_rel='snaps', filename=None, ext=None, update='none', jsonopt=None, apply=False):
    return 'cfg %d %s %s %s %s %s%s' % (n, hx(dir_rel), hx(filename) if filename else '-', hx(ext) if ext else '-', update,
                                        jsonopt or 'none', ' apply' if apply else '')


def mode_line(ci, upd):
    return 'mode %d %s' % (1 if ci else 0, hx(upd))


class Call:
    """one Match* call, rendered as an op line for a given cfg/texec"""
    def __init__(self, kind, payload, form='s', matchers=()):
        self.kind, self.payload, self.form, self.matchers = kind, payload, form, tuple(matchers)

    def op(self, cfg, texec):
        if self.kind == 'snap':
            vals = self.payload if isinstance(self.payload, (list, tuple)) else [self.payload]
            return 'snap %d %d %s' % (cfg, texec, ' '.join(hx(v) for v in vals))
        if self.kind == 'sasnap':
            return 'sasnap %d %d %s' % (cfg, texec, hx(self.payload))
        return '%s %d %d %s %s%s' % (self.kind, cfg, texec, self.form, hx(self.payload),
                                     ''.join(' ' + m for m in self.matchers))
