#!/bin/bash
# Build the framework from files on disk only (offline): fact extractor, generated Lean files,
# the whole Lean project (model, lemmas, property theorems) and the native model driver.
set -e
HERE="$(cd "$(dirname "$0")" && pwd)"
cd "$HERE"
export GOFLAGS=-mod=mod GOPROXY=off GOSUMDB=off GOTOOLCHAIN=local
mkdir -p .build evidence replays
(cd tools/extract && go build -o "$HERE/.build/extract" .)
mkdir -p lean/GoSnaps/Generated
"$HERE/.build/extract" /repo lean/GoSnaps/Generated || echo "setup: extractor failed on the current tree (checks will report it)"
python3 tools/extract_selftest.py || echo "setup: extractor self-test failed"
(cd lean && lake build 2>&1 | tail -5)
echo "setup done"
