#!/bin/bash
# tools/sweep.sh <tier> <seed>... : run every check on the unchanged tree for several seeds (used with `vp run`)
HERE="$(cd "$(dirname "$0")/.." && pwd)"
cd "$HERE"
TIER="$1"; shift
[ -x lean/.lake/build/bin/gosnaps-model ] || ./setup.sh >/dev/null 2>&1
for seed in "$@"; do
  for P in C01 C02 C03 C04 C05 C06 C07 C08 C09 C10 C11 C12 C13 C14 C15 C16 C17 C18 C19 C20; do
    VERIF_SEED=$seed ./check $P $TIER 2>&1 | grep "VIOLATION\|seed=" | cut -c1-200
  done
done
