// yieldify rewrites /repo/snaps/snapshot.go (current working tree) for the schedule explorer:
//   R1  `_m = sync.RWMutex{}`  becomes  `_m = verifRWMutex{}`  (same method set, scheduler aware)
//   R2  a function that performs file-level operations (os.OpenFile / os.WriteFile / os.MkdirAll)
//       and does not start by taking `_m` gets `verifYield("<fn>:enter")` as its first statement
//   R3  `verifYield("<fn>:truncate")` / `verifYield("<fn>:write")` before `<file>.Truncate(..)` /
//       `<file>.Write(..)`
// Output goes to stdout-given path; the result replaces the file through `go test -overlay`.
package main

import (
	"fmt"
	"go/ast"
	"go/format"
	"go/parser"
	"go/token"
	"os"
)

func sel(e ast.Expr) string {
	switch e := e.(type) {
	case *ast.Ident:
		return e.Name
	case *ast.SelectorExpr:
		return sel(e.X) + "." + e.Sel.Name
	}
	return "?"
}

func yield(label string) ast.Stmt {
	return &ast.ExprStmt{X: &ast.CallExpr{Fun: ast.NewIdent("verifYield"), Args: []ast.Expr{&ast.BasicLit{Kind: token.STRING, Value: fmt.Sprintf("%q", label)}}}}
}

func callOf(s ast.Stmt) *ast.CallExpr {
	switch s := s.(type) {
	case *ast.ExprStmt:
		if c, ok := s.X.(*ast.CallExpr); ok {
			return c
		}
	case *ast.AssignStmt:
		if len(s.Rhs) == 1 {
			if c, ok := s.Rhs[0].(*ast.CallExpr); ok {
				return c
			}
		}
	}
	return nil
}

func rewriteBlock(fn string, b *ast.BlockStmt, n *int) {
	var out []ast.Stmt
	for _, s := range b.List {
		if c := callOf(s); c != nil {
			if se, ok := c.Fun.(*ast.SelectorExpr); ok {
				if _, isIdent := se.X.(*ast.Ident); isIdent && sel(se.X) != "os" && sel(se.X) != "fmt" {
					switch se.Sel.Name {
					case "Truncate":
						out = append(out, yield(fn+":truncate"))
						*n++
					case "Write":
						if sel(se.X) == "f" {
							out = append(out, yield(fn+":write"))
							*n++
						}
					}
				}
			}
		}
		ast.Inspect(s, func(nd ast.Node) bool {
			if bb, ok := nd.(*ast.BlockStmt); ok && bb != b {
				rewriteBlock(fn, bb, n)
				return false
			}
			return true
		})
		out = append(out, s)
	}
	b.List = out
}

func main() {
	if len(os.Args) != 3 {
		fmt.Fprintln(os.Stderr, "usage: yieldify <snapshot.go> <out.go>")
		os.Exit(2)
	}
	fset := token.NewFileSet()
	f, err := parser.ParseFile(fset, os.Args[1], nil, parser.ParseComments)
	if err != nil {
		fmt.Fprintln(os.Stderr, err)
		os.Exit(2)
	}
	r1, r2, r3 := 0, 0, 0
	for _, d := range f.Decls {
		switch d := d.(type) {
		case *ast.GenDecl:
			for _, sp := range d.Specs {
				if vs, ok := sp.(*ast.ValueSpec); ok {
					for i, nm := range vs.Names {
						if nm.Name == "_m" && i < len(vs.Values) {
							if cl, ok := vs.Values[i].(*ast.CompositeLit); ok && sel(cl.Type) == "sync.RWMutex" {
								cl.Type = ast.NewIdent("verifRWMutex")
								r1++
							}
						}
					}
				}
			}
		case *ast.FuncDecl:
			if d.Body == nil || d.Recv != nil {
				continue
			}
			name := d.Name.Name
			fileOps := false
			ast.Inspect(d.Body, func(nd ast.Node) bool {
				if c, ok := nd.(*ast.CallExpr); ok {
					switch sel(c.Fun) {
					case "os.OpenFile", "os.WriteFile", "os.MkdirAll", "os.ReadFile":
						fileOps = true
					}
				}
				return true
			})
			startsLocked := false
			if len(d.Body.List) > 0 {
				if c := callOf(d.Body.List[0]); c != nil {
					if s := sel(c.Fun); s == "_m.Lock" || s == "_m.RLock" {
						startsLocked = true
					}
				}
			}
			rewriteBlock(name, d.Body, &r3)
			if fileOps && !startsLocked {
				d.Body.List = append([]ast.Stmt{yield(name + ":enter")}, d.Body.List...)
				r2++
			}
		}
	}
	if r1 != 1 {
		fmt.Fprintf(os.Stderr, "yieldify: expected exactly one `_m = sync.RWMutex{}` (found %d)\n", r1)
		os.Exit(2)
	}
	out, err := os.Create(os.Args[2])
	if err != nil {
		fmt.Fprintln(os.Stderr, err)
		os.Exit(2)
	}
	defer out.Close()
	if err := format.Node(out, fset, f); err != nil {
		fmt.Fprintln(os.Stderr, err)
		os.Exit(2)
	}
	fmt.Printf("yieldify: mutex swapped, %d enter-yields, %d truncate/write yields\n", r2, r3)
}
