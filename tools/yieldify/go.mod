module verif/yieldify

go 1.22
