package main

// Translation of small pure functions into Lean do-notation (`Id.run do` with `let mut`): a
// near-verbatim transliteration of straight-line Go with if statements.  The property files prove
// the translation EQUAL to the hand-written model definition, so that the model is tied to the
// source by proof, not only by testing.  Supported subset: `x := e`, `x = e`, `x += e` on
// strings, `if c { ... } [else { ... }]`, `return e`; expressions: identifiers, string
// literals, `+`, `==`, `!=`, `&&`, `||`, `!`, c.filename / c.extension / c.snapsDir, package string
// constants, filepath.Base / filepath.Ext / strings.TrimSuffix / strings.ReplaceAll (one-byte pattern).
import (
	"fmt"
	"go/ast"
	"go/token"
	"strconv"
	"strings"
)

type ftr struct {
	consts map[string]bool // package-level string constants available as Generated.<name>
	muts   map[string]bool
	err    error
}

func (t *ftr) fail(f string, a ...any) string {
	if t.err == nil {
		t.err = fmt.Errorf(f, a...)
	}
	return "sorry"
}

func bytesLit(s string) string {
	if s == "" {
		return "([] : List UInt8)"
	}
	p := make([]string, len(s))
	for i := 0; i < len(s); i++ {
		p[i] = strconv.Itoa(int(s[i]))
	}
	return "([" + strings.Join(p, ", ") + "] : List UInt8)"
}

var callMap = map[string]string{
	"filepath.Base": "GoSnaps.fpBase", "filepath.Ext": "GoSnaps.fpExt", "strings.TrimSuffix": "GoSnaps.trimSuffix",
}

func (t *ftr) expr(e ast.Expr) string {
	switch e := e.(type) {
	case *ast.ParenExpr:
		return "(" + t.expr(e.X) + ")"
	case *ast.Ident:
		if t.consts[e.Name] {
			return "GoSnaps.Generated.go_" + e.Name
		}
		if e.Name == "true" || e.Name == "false" {
			return e.Name
		}
		return e.Name
	case *ast.SelectorExpr:
		s := selName(e)
		switch s {
		case "c.filename", "c.extension", "c.snapsDir":
			return s
		}
		return t.fail("unsupported selector %s", s)
	case *ast.BasicLit:
		if e.Kind == token.STRING {
			v, _ := strconv.Unquote(e.Value)
			return bytesLit(v)
		}
		return t.fail("unsupported literal %s", e.Value)
	case *ast.BinaryExpr:
		switch e.Op {
		case token.ADD:
			return "(" + t.expr(e.X) + " ++ " + t.expr(e.Y) + ")"
		case token.EQL:
			return "(" + t.expr(e.X) + " == " + t.expr(e.Y) + ")"
		case token.NEQ:
			return "(" + t.expr(e.X) + " != " + t.expr(e.Y) + ")"
		case token.LAND:
			return "(" + t.expr(e.X) + " && " + t.expr(e.Y) + ")"
		case token.LOR:
			return "(" + t.expr(e.X) + " || " + t.expr(e.Y) + ")"
		}
		return t.fail("unsupported operator %s", e.Op)
	case *ast.UnaryExpr:
		if e.Op == token.NOT {
			return "(!" + t.expr(e.X) + ")"
		}
	case *ast.CallExpr:
		name := selName(e.Fun)
		if f, ok := callMap[name]; ok {
			args := make([]string, len(e.Args))
			for i, a := range e.Args {
				args[i] = t.expr(a)
			}
			return "(" + f + " " + strings.Join(args, " ") + ")"
		}
		if name == "strings.ReplaceAll" && len(e.Args) == 3 {
			if lit, ok := e.Args[1].(*ast.BasicLit); ok {
				old, _ := strconv.Unquote(lit.Value)
				if len(old) == 1 {
					return fmt.Sprintf("(GoSnaps.replaceByte %s %d %s)", t.expr(e.Args[0]), old[0], t.expr(e.Args[2]))
				}
			}
			return t.fail("ReplaceAll with a multi-byte pattern")
		}
		return t.fail("unsupported call %s", name)
	}
	return t.fail("unsupported expression %T", e)
}

func (t *ftr) block(list []ast.Stmt, ind string) string {
	var b strings.Builder
	for _, st := range list {
		switch s := st.(type) {
		case *ast.AssignStmt:
			if len(s.Lhs) != 1 || len(s.Rhs) != 1 {
				b.WriteString(ind + t.fail("multi-assignment") + "\n")
				continue
			}
			name := selName(s.Lhs[0])
			switch s.Tok {
			case token.DEFINE:
				if t.muts[name] {
					fmt.Fprintf(&b, "%slet mut %s := %s\n", ind, name, t.expr(s.Rhs[0]))
				} else {
					fmt.Fprintf(&b, "%slet %s := %s\n", ind, name, t.expr(s.Rhs[0]))
				}
			case token.ASSIGN:
				fmt.Fprintf(&b, "%s%s := %s\n", ind, name, t.expr(s.Rhs[0]))
			case token.ADD_ASSIGN:
				fmt.Fprintf(&b, "%s%s := %s ++ %s\n", ind, name, name, t.expr(s.Rhs[0]))
			default:
				b.WriteString(ind + t.fail("assignment operator %s", s.Tok) + "\n")
			}
		case *ast.IfStmt:
			if s.Init != nil {
				b.WriteString(ind + t.fail("if with init") + "\n")
				continue
			}
			fmt.Fprintf(&b, "%sif %s then\n%s", ind, t.expr(s.Cond), t.block(s.Body.List, ind+"  "))
			if s.Else != nil {
				if eb, ok := s.Else.(*ast.BlockStmt); ok {
					fmt.Fprintf(&b, "%selse\n%s", ind, t.block(eb.List, ind+"  "))
				} else {
					b.WriteString(ind + t.fail("else-if") + "\n")
				}
			}
		case *ast.ReturnStmt:
			if len(s.Results) != 1 {
				b.WriteString(ind + t.fail("return arity") + "\n")
				continue
			}
			fmt.Fprintf(&b, "%sreturn %s\n", ind, t.expr(s.Results[0]))
		default:
			b.WriteString(ind + t.fail("unsupported statement %T", st) + "\n")
		}
	}
	return b.String()
}

func extractFuncs(snaps *pkgInfo) string {
	fd := snaps.fn("constructFilename")
	// signature must be (c *Config, callerFilename, tName string, isStandalone bool) string
	var names []string
	for _, f := range fd.Type.Params.List {
		for _, n := range f.Names {
			names = append(names, n.Name+":"+selName(f.Type))
		}
	}
	if strings.Join(names, ",") != "c:*Config,callerFilename:string,tName:string,isStandalone:bool" {
		fail("funcs: constructFilename signature changed: %v", names)
	}
	t := &ftr{consts: map[string]bool{}, muts: map[string]bool{}}
	for name, v := range snaps.values {
		if _, ok := snaps.constString(v); ok {
			t.consts[name] = true
		}
	}
	ast.Inspect(fd.Body, func(n ast.Node) bool {
		if as, ok := n.(*ast.AssignStmt); ok && as.Tok != token.DEFINE {
			t.muts[selName(as.Lhs[0])] = true
		}
		return true
	})
	body := t.block(fd.Body.List, "  ")
	if t.err != nil {
		fail("funcs: constructFilename uses a construct outside the translated subset: %v", t.err)
	}
	var b strings.Builder
	b.WriteString("-- GENERATED by tools/extract: transliteration of pure functions of snaps/snapshot.go into Lean do-notation.\n")
	b.WriteString("import GoSnaps.Path\nset_option linter.unusedVariables false\nnamespace GoSnaps.Generated.Funcs\n\n")
	b.WriteString("def constructFilename (c : GoSnaps.Cfg) (callerFilename tName : List UInt8) (isStandalone : Bool) : List UInt8 := Id.run do\n")
	b.WriteString(body)
	b.WriteString("\nend GoSnaps.Generated.Funcs\n")
	return b.String()
}
