package main

// Tie by proof: translation of small Go functions into Lean do-notation.
//
// Every function listed in `funcSpecs` is re-read from the CURRENT source on every run and
// transliterated statement by statement into `GoSnaps.Generated.Funcs.<name>`; the theorems
// `<name>_tied` (lean/GoSnaps/Props/C11.lean for constructFilename, lean/GoSnaps/Props/Tie.lean for
// the others) prove the transliteration equal to / precisely related to the hand-written model, so
// a change of the Go function changes the generated Lean text and the proof has to be redone.
// Anything outside the subset below makes the extractor FAIL (exit 2) with a message naming the
// construct; nothing is ever defaulted.
//
// Representation of Go values
//   string, []byte  -> List UInt8        (a []byte is modelled with cap = len)
//   []string        -> List (List UInt8)
//   int             -> Int               (unbounded: exact as long as no intermediate value leaves
//                                         int64; the arithmetic of the translated functions is bounded
//                                         by len(x)+3, a digit count, or start+1 / stop-start)
//   byte, bool      -> UInt8, Bool       *Config -> GoSnaps.Cfg (fields filename/extension/snapsDir)
//   (A, B) results  -> A × B             error -> Bool (`err != nil`), only ever discarded with `_`
//
// Panics.  A function that contains no operation that can panic is emitted as `Id.run do …` (a
// total function).  A function containing one (index, slice, general index assignment,
// strings.Repeat, or a call of such a function) is emitted in the Option monad (`… : Option T := do`):
// `none` = the Go function panics (run-time error), `some v` = it returns v.  Partial operations
// appear as nested actions `(← GoSem.index b i)`.  All panics are identified, so evaluation order
// among strict operands is irrelevant; `&&` / `||` whose RIGHT operand can panic are translated to
// `(← (do if L then pure R else pure false))` / `(← (do if L then pure true else pure R))`, which
// evaluates R only when Go does (short circuit).
//
// Statement idioms -> Lean shape
//   x := e                         let x := e        (`let mut` when x is assigned again later)
//   x = e; x += e; x -= e; x++; x--                  x := e; x := x ++ e (strings) / x + e (int); …
//   x, _ = f(a)   (also :=, `_, y`, `x, y`)          x := (f a).1   (projections of the pair)
//   if c { A } else { B }, else-if chains            if c then A else B      (no init statement)
//   return e / return e1, e2 (anywhere, also in loops)   return e / return (e1, e2)
//   for i := lo; i < hi; i++ { B }                   for i in GoSem.intRange lo hi do B
//        requires: B assigns neither i nor a variable occurring in hi (checked)
//   for _, x := range xs { B }   ([]string only)     for x in xs do B
//   for i, x := range xs { B }                       for (i, x) in GoSem.enum xs do B
//   for i := range xs { B }                          for i in GoSem.intRange 0 (GoSem.len xs) do B
//        Go evaluates xs once and reads element i when iteration i starts.  The translation iterates
//        over the value xs has at loop entry; this is the same thing because B may modify xs only by
//        `xs[i] = v` with i the loop's own index variable (which B must not assign) — checked.
//   xs[i] = v   inside such a loop, same xs and i    xs := GoSem.setAt xs i v   (total: i is in range
//                                                    by construction, len(xs) cannot change)
//   xs[e] = v / xs[e] += v   elsewhere               xs := (← GoSem.setIndex xs e v)   (can panic)
//        an index-assigned variable must be a local defined from a call (a fresh slice), must not be
//        a parameter and must never be copied (`y := xs`, `y = xs[a:b]`): slices are modelled as
//        values, so aliasing is excluded syntactically (checked).
//   f := func(p T) (r R) { return e }                let f := fun (p : T) => e   (e total, no captures)
//   break / continue (unlabelled)                    break / continue
//   switch tag { case c1: A; case c2, c3: B; default: D }
//                                                    if (tag == c1) then A else if ((tag == c2) || (tag == c3)) then B else D
//        requires: no init statement; the tag cannot panic; every case operand is a constant of the
//        tag's type (no local variable occurs in it, it cannot panic), so that neither the order in
//        which Go compares them nor the number of evaluations matters; the clause bodies contain no
//        `break` (which would leave the switch, not the loop), `fallthrough` or `goto` (checked)
//
// Expressions: identifiers, string / int / char literals, `+ - == != < <= > >= && || !`, unary `-`,
// parentheses, `len(x)`, `x[i]`, `x[lo:hi]` (lo/hi optional), conversions string(x) / []byte(x)
// (identity), c.filename / c.extension / c.snapsDir, package string constants, calls of previously
// translated functions of the same package, and the library table `libTable` below (each Go library
// function is mapped to the model primitive that the differential tests validate):
//   filepath.Base/Ext/Dir/IsAbs/Join/Rel, strings.TrimSuffix, strings/bytes.HasPrefix,
//   strings/bytes.Index (-1 = absent), strings.Split(s, "\n") -> lines, strings.Join(ss, "\n") ->
//   unlines, strings.Split(s, sep)[0] -> GoSem.splitHead, strings.SplitAfter(s, "\n"),
//   strings.ReplaceAll (one-byte pattern), strings.Repeat (panics on a negative count), strconv.Itoa.
// Package state and opaque calls are made PARAMETERS per function (`funcSpecs`): the package
// variable isTrimBathBuild -> `trimpath`, the call `baseCaller(3)` (exact text) -> `caller`,
// `skippedTests.values` -> `skipped`, `regexp.MatchString` -> a function parameter, `colors.NOCOLOR`
// -> `nocolor`.  The third-party diffmatchpatch stays a parameter too: the exact composition
// `dmp.DiffCleanupSemantic(dmp.DiffMain(x, y, false))` (dmp = diffmatchpatch.New()) is the call
// `dmpDiff x y` of a function parameter returning []diffmatchpatch.Diff = List GoIO.DiffChunk (fields
// Type -> type : Int, Text -> text); the typed constants diffEqual / diffInsert / diffDelete of
// snaps/diff.go are resolved to the integers they are declared with.
import (
	"bytes"
	"fmt"
	"go/ast"
	"go/printer"
	"go/token"
	"os"
	"strconv"
	"strings"
)

// ---------------------------------------------------------------------------------------------
// types

type ty struct {
	k      string   // text texts int bool byte cfg pair func
	a, b   *ty      // pair components
	params []*ty    // func
	res    *ty      // func
	part   bool     // func: the result is in Option (the function can panic)
	caps   []string // closure without results: the captured builders it appends to (passed and returned)
}

var (
	tText   = &ty{k: "text"}
	tTexts  = &ty{k: "texts"}
	tInt    = &ty{k: "int"}
	tBool   = &ty{k: "bool"}
	tByte   = &ty{k: "byte"}
	tCfg    = &ty{k: "cfg"}
	tErr    = &ty{k: "err"}     // Go error -> GoIO.Err
	tScan   = &ty{k: "scanner"} // *bufio.Scanner -> GoIO.Scanner
	tFile   = &ty{k: "file"}    // *os.File -> GoIO.File
	tUnit   = &ty{k: "unit"}    // no result
	tMap1   = &ty{k: "map1"}    // map[string]int -> GoIO.Map1
	tMap2   = &ty{k: "map2"}    // map[string]map[string]int -> GoIO.Map2
	tReg    = &ty{k: "registry"}
	tSReg   = &ty{k: "sregistry"}
	tT      = &ty{k: "T"}       // testingT -> GoIO.T
	tOptB   = &ty{k: "optbool"} // *bool -> Option Bool
	tMatch  = &ty{k: "matcher"} // match.JSONMatcher / match.YAMLMatcher values (opaque)
	tMatchs = &ty{k: "matchers"}
	tMErr   = &ty{k: "merr"} // match.MatcherError
	tMErrs  = &ty{k: "merrs"}
	tSt     = &ty{k: "st"}
	tSet    = &ty{k: "set"}  // set (map[string]struct{}) -> GoIO.GoSet
	tSMap   = &ty{k: "smap"} // map[string]string -> GoIO.SMap
	tDirEs  = &ty{k: "dirents"}
	tDirE   = &ty{k: "dirent"}
	tDecls  = &ty{k: "godecls"} // the Decls of a parsed Go file
	tDecl   = &ty{k: "godecl"}
	tBools  = &ty{k: "bools"} // ...CleanOpts, each represented by its only field Sort
	tCOpt   = &ty{k: "cleanopt"}
	tAnyM   = &ty{k: "anym"}
	tTypeM  = &ty{k: "typem"}
	tCustM  = &ty{k: "custm"}
	tGRes   = &ty{k: "gres"}
	tYFile  = &ty{k: "yfile"}
	tYPath  = &ty{k: "ypath"}
	tYNode  = &ty{k: "ynode"}
	tOp     = &ty{k: "opcode"}
	tOps    = &ty{k: "opcodes"}
	tOpGs   = &ty{k: "opgroups"}
	tFuncP  = &ty{k: "funcptr"} // *runtime.Func: the function's name, none = nil
	tSeqM   = &ty{k: "seqm"}    // *difflib.sequenceMatcher: the two sequences it was built from
	tDyn    = &ty{k: "dyn"}     // a value passed as `any` whose dynamic type matters -> GoIO.Dyn
	tJCfgO  = &ty{k: "jcfgopt"} // *JSONConfig -> Option GoIO.JSONConfig (nil = none)
	tPOpts  = &ty{k: "popts"}   // *pretty.Options -> GoIO.PrettyOpts
	tChunk  = &ty{k: "chunk"}   // diffmatchpatch.Diff -> GoIO.DiffChunk
	tChunks = &ty{k: "chunks"}  // []diffmatchpatch.Diff
	tBad    = &ty{k: "?"}
)

func pairOf(a, b *ty) *ty { return &ty{k: "pair", a: a, b: b} }
func fnOf(res *ty, params ...*ty) *ty {
	return &ty{k: "func", params: params, res: res}
}

func (t *ty) lean() string {
	switch t.k {
	case "text":
		return "List UInt8"
	case "texts":
		return "List (List UInt8)"
	case "int":
		return "Int"
	case "bool":
		return "Bool"
	case "byte":
		return "UInt8"
	case "cfg":
		return "GoSnaps.Cfg"
	case "dyn":
		return "GoSnaps.GoIO.Dyn"
	case "jcfgopt":
		return "(Option GoSnaps.GoIO.JSONConfig)"
	case "popts":
		return "GoSnaps.GoIO.PrettyOpts"
	case "chunk":
		return "GoSnaps.GoIO.DiffChunk"
	case "chunks":
		return "List GoSnaps.GoIO.DiffChunk"
	case "err":
		return "GoSnaps.GoIO.Err"
	case "scanner":
		return "GoSnaps.GoIO.Scanner"
	case "file":
		return "GoSnaps.GoIO.File"
	case "unit":
		return "Unit"
	case "fs":
		return "GoSnaps.FS"
	case "map1":
		return "GoSnaps.GoIO.Map1"
	case "map2":
		return "GoSnaps.GoIO.Map2"
	case "T":
		return "GoSnaps.GoIO.T"
	case "optbool":
		return "Option Bool"
	case "matcher":
		return "GoSnaps.GoIO.Matcher"
	case "matchers":
		return "List GoSnaps.GoIO.Matcher"
	case "merr":
		return "GoSnaps.GoIO.MErr"
	case "merrs":
		return "List GoSnaps.GoIO.MErr"
	case "st":
		return "GoSnaps.GoIO.St"
	case "set":
		return "GoSnaps.GoIO.GoSet"
	case "smap":
		return "GoSnaps.GoIO.SMap"
	case "dirents":
		return "List GoSnaps.GoIO.DirEntry"
	case "dirent":
		return "GoSnaps.GoIO.DirEntry"
	case "godecls":
		return "List GoSnaps.GoIO.GoDecl"
	case "godecl":
		return "GoSnaps.GoIO.GoDecl"
	case "bools":
		return "List Bool"
	case "cleanopt":
		return "Bool"
	case "cfgopts":
		return "List (GoSnaps.Cfg → GoSnaps.Cfg)"
	case "anym":
		return "GoSnaps.GoIO.AnyMatcher"
	case "typem":
		return "GoSnaps.GoIO.TypeMatcher"
	case "custm":
		return "GoSnaps.GoIO.CustomMatcher"
	case "gres":
		return "GoSnaps.GoIO.GResult"
	case "yfile":
		return "GoSnaps.GoIO.YFile"
	case "ypath":
		return "GoSnaps.GoIO.YPath"
	case "ynode":
		return "GoSnaps.GoIO.YNode"
	case "opcode":
		return "GoSnaps.GoIO.OpCodeI"
	case "opcodes":
		return "List GoSnaps.GoIO.OpCodeI"
	case "opgroups":
		return "List (List GoSnaps.GoIO.OpCodeI)"
	case "funcptr":
		return "Option (List UInt8)"
	case "nat":
		return "Nat"
	case "frames":
		return "List GoSnaps.GoIO.Frame"
	case "seqm":
		return "(List (List UInt8) × List (List UInt8))"
	case "registry":
		return "GoSnaps.GoIO.Registry"
	case "sregistry":
		return "GoSnaps.GoIO.SRegistry"
	case "pair":
		return "(" + t.a.lean() + " × " + t.b.lean() + ")"
	case "func":
		var p []string
		for _, x := range t.params {
			p = append(p, x.lean())
		}
		r := t.res.lean()
		if t.part {
			r = "Option (" + r + ")"
		}
		return "(" + strings.Join(append(p, r), " → ") + ")"
	}
	return "?"
}

func (t *ty) eq(u *ty) bool {
	if t.k != u.k {
		return false
	}
	if t.k == "pair" {
		return t.a.eq(u.a) && t.b.eq(u.b)
	}
	if t.k == "func" {
		if len(t.params) != len(u.params) || !t.res.eq(u.res) || t.part != u.part {
			return false
		}
		for i := range t.params {
			if !t.params[i].eq(u.params[i]) {
				return false
			}
		}
		return true
	}
	return t.k != "?"
}

// ---------------------------------------------------------------------------------------------
// per-function specification: which package state / opaque calls become parameters

type param struct {
	name string
	t    *ty
}

type funcSpec struct {
	pkg     string           // "snaps" or "difflib"
	name    string           // Go function
	sig     string           // expected Go signature (parameters and results), checked
	extra   []param          // leading parameters of the Lean definition
	externs map[string]param // printed Go expression (variable, selector, or call with its exact arguments) -> parameter
	extFns  map[string]param // callee -> function parameter
	ptypes  map[string]*ty   // parameter -> type, where the Go type alone does not determine the representation
	recv    string           // methods: "<receiver name>:<kind>" (kind registry | sregistry); the receiver is in-out
	out     string           // generated file: "" = Funcs.lean, "IO" = FuncsIO.lean
	prints  bool             // fx = "rw" functions that call fmt.Println: parameter and result `stdout`
	fx      string           // "" pure; "ro" reads the file system (parameters io, fs); "rw" also returns the new fs
	inout   []string         // pointer parameters whose final value is returned (after fs, before the results)
	// fixed: extra parameter of a callee -> the constant this function passes for it, for a function
	// that does not carry the parameter itself.  {"nocolor": "false"} declares that the function runs
	// with colours ON only (singlelineDiff: every call is guarded by shouldPrintHighlights, whose first
	// conjunct is !colors.NOCOLOR); the colour constants are then the real escape sequences.
	fixed map[string]string
}

var funcSpecs = []funcSpec{
	{pkg: "snaps", name: "escapeFormat", sig: "s:string->string"},
	{pkg: "snaps", name: "constructFilename", sig: "c:*Config,callerFilename:string,tName:string,isStandalone:bool->string"},
	{pkg: "snaps", name: "snapshotPath", sig: "c:*Config,tName:string,isStandalone:bool->string,string",
		extra:   []param{{"trimpath", tBool}, {"caller", tText}},
		externs: map[string]param{"isTrimBathBuild": {"trimpath", tBool}, "baseCaller(3)": {"caller", tText}}},
	{pkg: "snaps", name: "escapeEndChars", sig: "s:string->string"},
	{pkg: "snaps", name: "unescapeEndChars", sig: "s:string->string"},
	{pkg: "snaps", name: "isNumber", sig: "b:[]byte->bool"},
	{pkg: "snaps", name: "getTestID", sig: "b:[]byte->string,bool"},
	{pkg: "snaps", name: "testSkipped", sig: "testID:string,runOnly:string->bool",
		extra:   []param{{"regexpMatchString", fnOf(pairOf(tBool, tBool), tText, tText)}, {"skipped", tTexts}},
		externs: map[string]param{"skippedTests.values": {"skipped", tTexts}},
		extFns:  map[string]param{"regexp.MatchString": {"regexpMatchString", fnOf(pairOf(tBool, tBool), tText, tText)}}},
	{pkg: "snaps", name: "isSingleline", sig: "s:string->bool"},
	{pkg: "snaps", name: "shouldPrintHighlights", sig: "a:string,b:string->bool",
		extra:   []param{{"nocolor", tBool}},
		externs: map[string]param{"colors.NOCOLOR": {"nocolor", tBool}}},
	{pkg: "snaps", name: "splitNewlines", sig: "s:string->[]string"},
	{pkg: "snaps", name: "intPadding", sig: "inserted:int,deleted:int->string,string"},
	{pkg: "difflib", name: "FormatRangeUnified", sig: "start:int,stop:int->string"},
	// effectful functions (Generated/FuncsIO.lean)
	{pkg: "snaps", name: "getPrevSnapshot", sig: "testID:string,snapPath:string->string,int,error", out: "IO", fx: "ro"},
	{pkg: "snaps", name: "removeSnapshot", sig: "s:*bufio.Scanner->", out: "IO", inout: []string{"s"}},
	{pkg: "snaps", name: "overwriteFile", sig: "f:*os.File,b:[]byte->error", out: "IO", fx: "rw", inout: []string{"f"}},
	{pkg: "snaps", name: "addNewSnapshot", sig: "testID:string,snapshot:string,snapPath:string->error", out: "IO", fx: "rw"},
	{pkg: "snaps", name: "updateSnapshot", sig: "testID:string,snapshot:string,snapPath:string->error", out: "IO", fx: "rw"},
	{pkg: "snaps", name: "upsertStandaloneSnapshot", sig: "snapshot:string,snapPath:string->error", out: "IO", fx: "rw"},
	{pkg: "snaps", name: "getPrevStandaloneSnapshot", sig: "snapPath:string->string,error", out: "IO", fx: "ro"},
	{pkg: "snaps", name: "syncRegistry.getTestID", sig: "snapPath:string,testName:string->string", out: "IO", recv: "s:registry"},
	{pkg: "snaps", name: "syncRegistry.reset", sig: "snapPath:string,testName:string->", out: "IO", recv: "s:registry"},
	{pkg: "snaps", name: "syncStandaloneRegistry.getTestID", sig: "snapPath:string,snapPathRel:string->string,string", out: "IO", recv: "s:sregistry"},
	{pkg: "snaps", name: "syncStandaloneRegistry.reset", sig: "snapPath:string->", out: "IO", recv: "s:sregistry"},
	// Clean
	{pkg: "snaps", name: "snapshotOccurrenceFMT", sig: "s:string,i:int->string", out: "IO"},
	{pkg: "snaps", name: "standaloneOccurrenceFMT", sig: "s:string,i:int->string", out: "IO"},
	{pkg: "snaps", name: "occurrences", sig: "tests:map[string]int,count:int,formatter:func(string, int) string->set", out: "IO"},
	{pkg: "snaps", name: "examineSnaps", sig: "registry:map[string]map[string]int,used:[]string,runOnly:string,count:int,update:bool,sort:bool->[]string,error", out: "IO", fx: "rw",
		extra: []param{{"regexpMatchString", fnOf(pairOf(tBool, tBool), tText, tText)}, {"skipped", tTexts}}},
	{pkg: "snaps", name: "printEvent", sig: "w:io.Writer,color:string,symbol:string,verb:string,events:int->", out: "IO", inout: []string{"w"}},
	{pkg: "snaps", name: "summary", sig: "obsoleteFiles:[]string,obsoleteTests:[]string,NOskippedTests:int,testEvents:map[uint8]int,shouldUpdate:bool->string", out: "IO"},
	{pkg: "snaps", name: "isFileSkipped", sig: "dir:string,filename:string,runOnly:string->bool", out: "IO",
		extra:  []param{{"parseFile", fnOf(pairOf(tDecls, tErr), tText)}, {"regexpMatchString", fnOf(pairOf(tBool, tBool), tText, tText)}},
		extFns: map[string]param{"regexp.MatchString": {"regexpMatchString", fnOf(pairOf(tBool, tBool), tText, tText)}}},
	{pkg: "snaps", name: "examineFiles", sig: "registry:map[string]map[string]int,registeredStandaloneTests:set,runOnly:string,shouldUpdate:bool->named,[]string", out: "IO", fx: "rw", prints: true,
		extra: []param{{"parseFile", fnOf(pairOf(tDecls, tErr), tText)}, {"regexpMatchString", fnOf(pairOf(tBool, tBool), tText, tText)}}},
	{pkg: "snaps", name: "Clean", sig: "m:*testing.M,opts:...CleanOpts->", out: "IO", fx: "st",
		extra: []param{{"parseFile", fnOf(pairOf(tDecls, tErr), tText)}, {"regexpMatchString", fnOf(pairOf(tBool, tBool), tText, tText)},
			{"runFlag", tText}, {"countFlag", pairOf(tInt, tErr)}},
		externs: map[string]param{"flag.Lookup(\"test.run\").Value.String()": {"runFlag", tText},
			"strconv.Atoi(flag.Lookup(\"test.count\").Value.String())": {"countFlag", pairOf(tInt, tErr)},
			"skippedTests.values": {"st.skipped", tTexts}}},
	// package match: the matcher loops, relative to the document libraries (parameters)
	{pkg: "match", name: "anyMatcher.matcherError", sig: "err:error,path:string->MatcherError", out: "IO", recv: "a:anym"},
	{pkg: "match", name: "anyMatcher.Placeholder", sig: "p:any->*anyMatcher", out: "IO", recv: "a:anym"},
	{pkg: "match", name: "anyMatcher.ErrOnMissingPath", sig: "e:bool->*anyMatcher", out: "IO", recv: "a:anym"},
	{pkg: "match", name: "anyMatcher.JSON", sig: "b:[]byte->[]byte,[]MatcherError", out: "IO", recv: "a:anym",
		extra:  []param{{"gjsonGet", fnOf(tGRes, tText, tText)}, {"sjsonSet", fnOf(pairOf(tText, tErr), tText, tText, tText)}},
		extFns: map[string]param{"gjson.GetBytes": {"gjsonGet", fnOf(tGRes, tText, tText)}, "sjson.SetBytesOptions": {"sjsonSet", fnOf(pairOf(tText, tErr), tText, tText, tText)}}},
	{pkg: "match", name: "anyMatcher.YAML", sig: "b:[]byte->[]byte,[]MatcherError", out: "IO", recv: "a:anym",
		extra: []param{{"yamlParse", fnOf(pairOf(tYFile, tErr), tText)}, {"yamlGet", fnOf(nestedPair([]*ty{tYPath, tYNode, tBool, tErr}), tYFile, tText)},
			{"yamlUpdate", fnOf(pairOf(tYFile, tErr), tYFile, tYPath, tText)}, {"yamlMarshal", fnOf(tText, tYFile, tBool)}},
		extFns: map[string]param{"parser.ParseBytes": {"yamlParse", fnOf(pairOf(tYFile, tErr), tText)}, "yaml.Get": {"yamlGet", fnOf(nestedPair([]*ty{tYPath, tYNode, tBool, tErr}), tYFile, tText)},
			"yaml.Update": {"yamlUpdate", fnOf(pairOf(tYFile, tErr), tYFile, tYPath, tText)}, "yaml.MarshalFile": {"yamlMarshal", fnOf(tText, tYFile, tBool)}}},
	{pkg: "match", name: "customMatcher.matcherError", sig: "err:error->[]MatcherError", out: "IO", recv: "c:custm"},
	{pkg: "match", name: "customMatcher.ErrOnMissingPath", sig: "e:bool->*customMatcher", out: "IO", recv: "c:custm"},
	{pkg: "match", name: "customMatcher.JSON", sig: "b:[]byte->[]byte,[]MatcherError", out: "IO", recv: "c:custm",
		extra:  []param{{"gjsonGet", fnOf(tGRes, tText, tText)}, {"sjsonSet", fnOf(pairOf(tText, tErr), tText, tText, tText)}},
		extFns: map[string]param{"gjson.GetBytes": {"gjsonGet", fnOf(tGRes, tText, tText)}, "sjson.SetBytesOptions": {"sjsonSet", fnOf(pairOf(tText, tErr), tText, tText, tText)}}},
	{pkg: "match", name: "customMatcher.YAML", sig: "b:[]byte->[]byte,[]MatcherError", out: "IO", recv: "c:custm",
		extra: []param{{"yamlParse", fnOf(pairOf(tYFile, tErr), tText)}, {"yamlGet", fnOf(nestedPair([]*ty{tYPath, tYNode, tBool, tErr}), tYFile, tText)},
			{"yamlGetValue", fnOf(pairOf(tText, tErr), tYNode)},
			{"yamlUpdate", fnOf(pairOf(tYFile, tErr), tYFile, tYPath, tText)}, {"yamlMarshal", fnOf(tText, tYFile, tBool)}},
		extFns: map[string]param{"parser.ParseBytes": {"yamlParse", fnOf(pairOf(tYFile, tErr), tText)}, "yaml.Get": {"yamlGet", fnOf(nestedPair([]*ty{tYPath, tYNode, tBool, tErr}), tYFile, tText)},
			"yaml.GetValue": {"yamlGetValue", fnOf(pairOf(tText, tErr), tYNode)},
			"yaml.Update":   {"yamlUpdate", fnOf(pairOf(tYFile, tErr), tYFile, tYPath, tText)}, "yaml.MarshalFile": {"yamlMarshal", fnOf(tText, tYFile, tBool)}}},
	{pkg: "match", name: "typeMatcher.matcherError", sig: "err:error,path:string->MatcherError", out: "IO", recv: "t:typem"},
	{pkg: "match", name: "typeMatcher.ErrOnMissingPath", sig: "e:bool->*typeMatcher[T]", out: "IO", recv: "t:typem"},
	{pkg: "match", name: "typeMatcher.JSON", sig: "b:[]byte->[]byte,[]MatcherError", out: "IO", recv: "t:typem",
		extra: []param{{"gjsonGet", fnOf(tGRes, tText, tText)}, {"sjsonSet", fnOf(pairOf(tText, tErr), tText, tText, tText)},
			{"typeCheckFn", fnOf(tErr, tText)}, {"typePlaceholderFn", fnOf(tText, tText)}},
		extFns: map[string]param{"gjson.GetBytes": {"gjsonGet", fnOf(tGRes, tText, tText)}, "sjson.SetBytesOptions": {"sjsonSet", fnOf(pairOf(tText, tErr), tText, tText, tText)},
			"typeCheck": {"typeCheckFn", fnOf(tErr, tText)}, "typePlaceholder": {"typePlaceholderFn", fnOf(tText, tText)}}},
	{pkg: "match", name: "typeMatcher.YAML", sig: "b:[]byte->[]byte,[]MatcherError", out: "IO", recv: "t:typem",
		extra: []param{{"yamlParse", fnOf(pairOf(tYFile, tErr), tText)}, {"yamlGet", fnOf(nestedPair([]*ty{tYPath, tYNode, tBool, tErr}), tYFile, tText)},
			{"yamlGetValue", fnOf(pairOf(tText, tErr), tYNode)},
			{"yamlUpdate", fnOf(pairOf(tYFile, tErr), tYFile, tYPath, tText)}, {"yamlMarshal", fnOf(tText, tYFile, tBool)},
			{"typeCheckFn", fnOf(tErr, tText)}, {"typePlaceholderFn", fnOf(tText, tText)}},
		extFns: map[string]param{"parser.ParseBytes": {"yamlParse", fnOf(pairOf(tYFile, tErr), tText)}, "yaml.Get": {"yamlGet", fnOf(nestedPair([]*ty{tYPath, tYNode, tBool, tErr}), tYFile, tText)},
			"yaml.GetValue": {"yamlGetValue", fnOf(pairOf(tText, tErr), tYNode)},
			"yaml.Update":   {"yamlUpdate", fnOf(pairOf(tYFile, tErr), tYFile, tYPath, tText)}, "yaml.MarshalFile": {"yamlMarshal", fnOf(tText, tYFile, tBool)},
			"typeCheck": {"typeCheckFn", fnOf(tErr, tText)}, "typePlaceholder": {"typePlaceholderFn", fnOf(tText, tText)}}},
	// colors (both colour modes: `nocolor` stands for colors.NOCOLOR) and the diff report
	{pkg: "colors", name: "hasNewlineSuffix", sig: "s:string->bool", out: "IO"},
	{pkg: "colors", name: "trimSuffix", sig: "s:string->string", out: "IO"},
	{pkg: "colors", name: "Fprint", sig: "w:io.Writer,color:string,s:string->", out: "IO", inout: []string{"w"},
		extra: []param{{"nocolor", tBool}}, externs: map[string]param{"NOCOLOR": {"nocolor", tBool}}},
	{pkg: "colors", name: "FprintEqual", sig: "w:io.Writer,s:string->", out: "IO", inout: []string{"w"},
		extra: []param{{"nocolor", tBool}}, externs: map[string]param{"NOCOLOR": {"nocolor", tBool}}},
	{pkg: "colors", name: "FprintDelete", sig: "w:io.Writer,s:string->", out: "IO", inout: []string{"w"},
		extra: []param{{"nocolor", tBool}}, externs: map[string]param{"NOCOLOR": {"nocolor", tBool}}},
	{pkg: "colors", name: "FprintInsert", sig: "w:io.Writer,s:string->", out: "IO", inout: []string{"w"},
		extra: []param{{"nocolor", tBool}}, externs: map[string]param{"NOCOLOR": {"nocolor", tBool}}},
	{pkg: "colors", name: "FprintRange", sig: "w:io.Writer,r1:string,r2:string->", out: "IO", inout: []string{"w"},
		extra: []param{{"nocolor", tBool}}, externs: map[string]param{"NOCOLOR": {"nocolor", tBool}}},
	{pkg: "snaps", name: "printRange", sig: "w:io.Writer,opcodes:[]difflib.OpCode->", out: "IO", inout: []string{"w"},
		extra: []param{{"nocolor", tBool}}},
	{pkg: "snaps", name: "getUnifiedDiff", sig: "a:string,b:string->string,int,int", out: "IO",
		extra:   []param{{"nocolor", tBool}, {"groupedOpCodes", fnOf(tOpGs, tTexts, tTexts, tInt)}, {"singlelineDiffFn", fnOf(nestedPair([]*ty{tText, tInt, tInt}), tText, tText)}},
		externs: map[string]param{"colors.NOCOLOR": {"nocolor", tBool}},
		extFns:  map[string]param{"singlelineDiff": {"singlelineDiffFn", fnOf(nestedPair([]*ty{tText, tInt, tInt}), tText, tText)}}},
	{pkg: "snaps", name: "buildDiffReport", sig: "inserted:int,deleted:int,diff:string,name:string,line:int->string", out: "IO",
		extra: []param{{"nocolor", tBool}}},
	{pkg: "snaps", name: "prettyDiff", sig: "expected:string,received:string,name:string,line:int->string", out: "IO",
		extra:   []param{{"nocolor", tBool}, {"groupedOpCodes", fnOf(tOpGs, tTexts, tTexts, tInt)}, {"singlelineDiffFn", fnOf(nestedPair([]*ty{tText, tInt, tInt}), tText, tText)}},
		externs: map[string]param{"colors.NOCOLOR": {"nocolor", tBool}},
		extFns:  map[string]param{"singlelineDiff": {"singlelineDiffFn", fnOf(nestedPair([]*ty{tText, tInt, tInt}), tText, tText)}}},
	// the inline (single-line) diff: after getUnifiedDiff / prettyDiff, which keep taking it as the
	// parameter singlelineDiffFn.  diffmatchpatch stays a parameter (dmpDiff); colours are ON (`fixed`)
	{pkg: "colors", name: "FprintDeleteBold", sig: "w:io.Writer,s:string->", out: "IO", inout: []string{"w"},
		extra: []param{{"nocolor", tBool}}, externs: map[string]param{"NOCOLOR": {"nocolor", tBool}}},
	{pkg: "colors", name: "FprintInsertBold", sig: "w:io.Writer,s:string->", out: "IO", inout: []string{"w"},
		extra: []param{{"nocolor", tBool}}, externs: map[string]param{"NOCOLOR": {"nocolor", tBool}}},
	{pkg: "colors", name: "FprintBg", sig: "w:io.Writer,bgColor:string,color:string,s:string->", out: "IO", inout: []string{"w"},
		extra: []param{{"nocolor", tBool}}, externs: map[string]param{"NOCOLOR": {"nocolor", tBool}}},
	{pkg: "snaps", name: "hasNewLine", sig: "b:[]byte->bool", out: "IO"},
	{pkg: "snaps", name: "singlelineDiff", sig: "expected:string,received:string->string,int,int", out: "IO",
		extra:  []param{{"dmpDiff", fnOf(tChunks, tText, tText)}},
		extFns: map[string]param{"dmp.DiffCleanupSemantic(dmp.DiffMain)": {"dmpDiff", fnOf(tChunks, tText, tText)}},
		fixed:  map[string]string{"nocolor": "false"}},
	{pkg: "snaps", name: "baseCaller", sig: "skip:int->string", out: "IO",
		extra: []param{{"fuel", &ty{k: "nat"}}, {"frames", &ty{k: "frames"}}},
		extFns: map[string]param{"runtime.Caller": {"(GoSnaps.GoIO.runtimeCaller frames)", fnOf(nestedPair([]*ty{tInt, tText, tInt, tBool}), tInt)},
			"runtime.FuncForPC": {"(GoSnaps.GoIO.funcForPC frames)", fnOf(tFuncP, tInt)}}},
	// Config options
	{pkg: "snaps", name: "Update", sig: "u:bool->func(*Config)", out: "IO"},
	{pkg: "snaps", name: "Filename", sig: "name:string->func(*Config)", out: "IO"},
	{pkg: "snaps", name: "Dir", sig: "dir:string->func(*Config)", out: "IO"},
	{pkg: "snaps", name: "Ext", sig: "ext:string->func(*Config)", out: "IO"},
	{pkg: "snaps", name: "WithConfig", sig: "args:...func(*Config)->*Config", out: "IO"},
	// the Match* flows
	{pkg: "snaps", name: "handleError", sig: "t:testingT,err:any->", out: "IO", fx: "st"},
	{pkg: "snaps", name: "takeSnapshot", sig: "objects:[]any->string", out: "IO"},
	{pkg: "snaps", name: "matchSnapshot", sig: "c:*Config,t:testingT,values:...any->", out: "IO", fx: "st",
		extra:   []param{{"trimpath", tBool}, {"caller", tText}},
		externs: map[string]param{}},
	{pkg: "snaps", name: "matchStandaloneSnapshot", sig: "c:*Config,t:testingT,input:any->", out: "IO", fx: "st",
		extra: []param{{"trimpath", tBool}, {"caller", tText}}},
	{pkg: "snaps", name: "applyJSONMatchers", sig: "b:[]byte,matchers:...match.JSONMatcher->[]byte,[]match.MatcherError", out: "IO",
		extra:  []param{{"runMatcher", fnOf(pairOf(tText, tMErrs), tMatch, tText)}},
		extFns: map[string]param{"m.JSON": {"runMatcher", fnOf(pairOf(tText, tMErrs), tMatch, tText)}}},
	{pkg: "snaps", name: "applyYAMLMatchers", sig: "b:[]byte,matchers:...match.YAMLMatcher->[]byte,[]match.MatcherError", out: "IO",
		extra:  []param{{"runMatcher", fnOf(pairOf(tText, tMErrs), tMatch, tText)}},
		extFns: map[string]param{"m.YAML": {"runMatcher", fnOf(pairOf(tText, tMErrs), tMatch, tText)}}},
	{pkg: "snaps", name: "takeYAMLSnapshot", sig: "b:[]byte->string", out: "IO"},
	{pkg: "snaps", name: "matchJSON", sig: "c:*Config,t:testingT,input:any,matchers:...match.JSONMatcher->", out: "IO", fx: "st",
		extra: []param{{"trimpath", tBool}, {"caller", tText}, {"runMatcher", fnOf(pairOf(tText, tMErrs), tMatch, tText)},
			{"validate", fnOf(pairOf(tText, tErr), tText)}, {"takeJSON", fnOf(tText, tCfg, tText)}},
		extFns: map[string]param{"validateJSON": {"validate", fnOf(pairOf(tText, tErr), tText)}, "takeJSONSnapshot": {"takeJSON", fnOf(tText, tCfg, tText)}}},
	{pkg: "snaps", name: "matchYAML", sig: "c:*Config,t:testingT,input:any,matchers:...match.YAMLMatcher->", out: "IO", fx: "st",
		extra: []param{{"trimpath", tBool}, {"caller", tText}, {"runMatcher", fnOf(pairOf(tText, tMErrs), tMatch, tText)},
			{"validate", fnOf(pairOf(tText, tErr), tText)}},
		extFns: map[string]param{"validateYAML": {"validate", fnOf(pairOf(tText, tErr), tText)}}},
	{pkg: "snaps", name: "trackSkip", sig: "t:testingT->", out: "IO", fx: "st"},
	{pkg: "snaps", name: "Skip", sig: "t:testingT,args:...any->", out: "IO", fx: "st"},
	{pkg: "snaps", name: "Skipf", sig: "t:testingT,format:string,args:...any->", out: "IO", fx: "st"},
	{pkg: "snaps", name: "SkipNow", sig: "t:testingT->", out: "IO", fx: "st"},
	// the exported entry points (after every flow they delegate to)

	{pkg: "snaps", name: "matchStandaloneJSON", sig: "c:*Config,t:testingT,input:any,matchers:...match.JSONMatcher->", out: "IO", fx: "st",
		extra: []param{{"trimpath", tBool}, {"caller", tText}, {"runMatcher", fnOf(pairOf(tText, tMErrs), tMatch, tText)},
			{"validate", fnOf(pairOf(tText, tErr), tText)}, {"takeJSON", fnOf(tText, tCfg, tText)}},
		extFns: map[string]param{"validateJSON": {"validate", fnOf(pairOf(tText, tErr), tText)}, "takeJSONSnapshot": {"takeJSON", fnOf(tText, tCfg, tText)}}},
	{pkg: "snaps", name: "Config.MatchSnapshot", sig: "t:testingT,values:...any->", out: "IO", fx: "st", recv: "c:cfg", extra: []param{{"trimpath", tBool}, {"caller", tText}}},
	{pkg: "snaps", name: "MatchSnapshot", sig: "t:testingT,values:...any->", out: "IO", fx: "st", extra: []param{{"trimpath", tBool}, {"caller", tText}}},
	{pkg: "snaps", name: "Config.MatchStandaloneSnapshot", sig: "t:testingT,input:any->", out: "IO", fx: "st", recv: "c:cfg", extra: []param{{"trimpath", tBool}, {"caller", tText}}},
	{pkg: "snaps", name: "MatchStandaloneSnapshot", sig: "t:testingT,input:any->", out: "IO", fx: "st", extra: []param{{"trimpath", tBool}, {"caller", tText}}},
	{pkg: "snaps", name: "Config.MatchJSON", sig: "t:testingT,input:any,matchers:...match.JSONMatcher->", out: "IO", fx: "st", recv: "c:cfg", extra: []param{{"trimpath", tBool}, {"caller", tText}, {"runMatcher", fnOf(pairOf(tText, tMErrs), tMatch, tText)},
		{"validate", fnOf(pairOf(tText, tErr), tText)}, {"takeJSON", fnOf(tText, tCfg, tText)}}},
	{pkg: "snaps", name: "MatchJSON", sig: "t:testingT,input:any,matchers:...match.JSONMatcher->", out: "IO", fx: "st", extra: []param{{"trimpath", tBool}, {"caller", tText}, {"runMatcher", fnOf(pairOf(tText, tMErrs), tMatch, tText)},
		{"validate", fnOf(pairOf(tText, tErr), tText)}, {"takeJSON", fnOf(tText, tCfg, tText)}}},
	{pkg: "snaps", name: "Config.MatchYAML", sig: "t:testingT,input:any,matchers:...match.YAMLMatcher->", out: "IO", fx: "st", recv: "c:cfg", extra: []param{{"trimpath", tBool}, {"caller", tText}, {"runMatcher", fnOf(pairOf(tText, tMErrs), tMatch, tText)},
		{"validate", fnOf(pairOf(tText, tErr), tText)}}},
	{pkg: "snaps", name: "MatchYAML", sig: "t:testingT,input:any,matchers:...match.YAMLMatcher->", out: "IO", fx: "st", extra: []param{{"trimpath", tBool}, {"caller", tText}, {"runMatcher", fnOf(pairOf(tText, tMErrs), tMatch, tText)},
		{"validate", fnOf(pairOf(tText, tErr), tText)}}},
	{pkg: "snaps", name: "Config.MatchStandaloneJSON", sig: "t:testingT,input:any,matchers:...match.JSONMatcher->", out: "IO", fx: "st", recv: "c:cfg", extra: []param{{"trimpath", tBool}, {"caller", tText}, {"runMatcher", fnOf(pairOf(tText, tMErrs), tMatch, tText)},
		{"validate", fnOf(pairOf(tText, tErr), tText)}, {"takeJSON", fnOf(tText, tCfg, tText)}}},
	{pkg: "snaps", name: "MatchStandaloneJSON", sig: "t:testingT,input:any,matchers:...match.JSONMatcher->", out: "IO", fx: "st", extra: []param{{"trimpath", tBool}, {"caller", tText}, {"runMatcher", fnOf(pairOf(tText, tMErrs), tMatch, tText)},
		{"validate", fnOf(pairOf(tText, tErr), tText)}, {"takeJSON", fnOf(tText, tCfg, tText)}}},
	// (after the flows, which take validation and formatting as parameters)
	// the document pipelines: which form of input is validated, marshalled, pretty printed
	{pkg: "snaps", name: "validateJSON", sig: "input:any->[]byte,error", out: "IO", ptypes: map[string]*ty{"input": tDyn},
		extra: []param{{"gjsonValid", fnOf(tBool, tText)}, {"jsonMarshal", fnOf(pairOf(tText, tErr), tDyn)}},
		extFns: map[string]param{"gjson.Valid": {"gjsonValid", fnOf(tBool, tText)}, "gjson.ValidBytes": {"gjsonValid", fnOf(tBool, tText)},
			"json.Marshal": {"jsonMarshal", fnOf(pairOf(tText, tErr), tDyn)}}},
	{pkg: "snaps", name: "validateYAML", sig: "input:any->[]byte,error", out: "IO", ptypes: map[string]*ty{"input": tDyn},
		extra: []param{{"yamlUnmarshal", fnOf(tErr, tText)}, {"yamlMarshal", fnOf(pairOf(tText, tErr), tDyn)}}},
	{pkg: "snaps", name: "JSONConfig.getPrettyJSONOptions", sig: "->*pretty.Options", out: "IO", recv: "j:jcfgopt"},
	{pkg: "snaps", name: "takeJSONSnapshot", sig: "c:*Config,b:[]byte->string", out: "IO",
		extra:  []param{{"jsonConfigOf", fnOf(tJCfgO, tCfg)}, {"prettyOptions", fnOf(tText, tText, tPOpts)}},
		extFns: map[string]param{"pretty.PrettyOptions": {"prettyOptions", fnOf(tText, tText, tPOpts)}}},
}

// ---------------------------------------------------------------------------------------------
// library table

type libFn struct {
	lean     string
	params   []*ty
	variadic bool // all arguments have type params[0] and are passed as one list
	res      *ty
	partial  bool
}

var libTable = map[string]libFn{
	"filepath.Base":      {lean: "GoSnaps.fpBase", params: []*ty{tText}, res: tText},
	"filepath.Ext":       {lean: "GoSnaps.fpExt", params: []*ty{tText}, res: tText},
	"filepath.Dir":       {lean: "GoSnaps.fpDir", params: []*ty{tText}, res: tText},
	"filepath.IsAbs":     {lean: "GoSnaps.fpIsAbs", params: []*ty{tText}, res: tBool},
	"filepath.Join":      {lean: "GoSnaps.fpJoin", params: []*ty{tText}, variadic: true, res: tText},
	"path.Join":          {lean: "GoSnaps.fpJoin", params: []*ty{tText}, variadic: true, res: tText},
	"strings.Contains":   {lean: "GoSnaps.containsSub", params: []*ty{tText, tText}, res: tBool},
	"filepath.Rel":       {lean: "GoSnaps.GoSem.filepathRel", params: []*ty{tText, tText}, res: pairOf(tText, tBool)},
	"strings.TrimSuffix": {lean: "GoSnaps.trimSuffix", params: []*ty{tText, tText}, res: tText},
	"strings.HasPrefix":  {lean: "GoSnaps.hasPrefix", params: []*ty{tText, tText}, res: tBool},
	"strings.HasSuffix":  {lean: "GoSnaps.hasSuffix", params: []*ty{tText, tText}, res: tBool},
	"bytes.HasSuffix":    {lean: "GoSnaps.hasSuffix", params: []*ty{tText, tText}, res: tBool},
	"bytes.HasPrefix":    {lean: "GoSnaps.hasPrefix", params: []*ty{tText, tText}, res: tBool},
	"strings.Index":      {lean: "GoSnaps.GoSem.indexInt", params: []*ty{tText, tText}, res: tInt},
	"bytes.Index":        {lean: "GoSnaps.GoSem.indexInt", params: []*ty{tText, tText}, res: tInt},
	"strings.Repeat":     {lean: "GoSnaps.GoSem.stringsRepeat", params: []*ty{tText, tInt}, res: tText, partial: true},
	"strconv.Itoa":       {lean: "GoSnaps.GoSem.itoa", params: []*ty{tInt}, res: tText},
}

// ---------------------------------------------------------------------------------------------
// translator

type doneFn struct {
	spec    *funcSpec
	params  []*ty
	pnames  []string
	anyP    map[int]bool // parameters declared `any` in Go
	res     *ty          // the Lean result type (state prefix and Go results)
	rets    []*ty        // the Go results
	partial bool
	text    string
}

func (d *doneFn) ns() string {
	if d.spec.out == "IO" {
		return "GoSnaps.Generated.FuncsIO."
	}
	return "GoSnaps.Generated.Funcs."
}

type loopCtx struct {
	slice, idx string // `for idx, _ := range slice`
}

type ftr struct {
	pkg     *pkgInfo
	consts  map[string]bool // package-level string constants available as Generated.go_<name>
	muts    map[string]bool
	idxAsg  map[string]bool // variables that are index-assigned somewhere in the function
	env     []map[string]*ty
	ren     []map[string]string // Go name -> Lean name where they differ (if-init variables)
	rets    []*ty               // the Go result types
	builder map[string]bool     // locals that are strings.Builder / bytes.Buffer (modelled as their content)
	fsMut   bool                // the function threads the file system (`fs`)
	sp      *funcSpec
	funcs   map[string]*doneFn // already translated functions, key pkg+"."+name
	partial bool
	loops   []loopCtx
	tmp     int
	err     error
}

type ex struct {
	s string
	t *ty
	p bool // contains an operation that can panic
}

func (t *ftr) fail(f string, a ...any) ex {
	if t.err == nil {
		t.err = fmt.Errorf(f, a...)
	}
	return ex{"sorry", tBad, false}
}

func (t *ftr) push() {
	t.env = append(t.env, map[string]*ty{})
	t.ren = append(t.ren, map[string]string{})
}
func (t *ftr) pop() {
	t.env = t.env[:len(t.env)-1]
	t.ren = t.ren[:len(t.ren)-1]
}
func (t *ftr) bind(n string, ty *ty) {
	t.env[len(t.env)-1][n] = ty
	delete(t.ren[len(t.ren)-1], n)
}

// bindAs: bind the Go variable n to the Lean name `lean`
func (t *ftr) bindAs(n, lean string, ty *ty) {
	t.bind(n, ty)
	if lean != leanIdent(n) {
		t.ren[len(t.ren)-1][n] = lean
	}
}

// ln: the Lean name of the Go variable n (differs for variables of an `if` init statement, which
// are renamed so that they cannot capture a later use of an outer variable of the same name)
func (t *ftr) ln(n string) string {
	for i := len(t.env) - 1; i >= 0; i-- {
		if _, ok := t.env[i][n]; ok {
			if r, ok := t.ren[i][n]; ok {
				return r
			}
			return leanIdent(n)
		}
	}
	return leanIdent(n)
}
func (t *ftr) lookup(n string) *ty {
	for i := len(t.env) - 1; i >= 0; i-- {
		if ty, ok := t.env[i][n]; ok {
			return ty
		}
	}
	return nil
}

var leanReserved = map[string]bool{"at": true, "from": true, "end": true, "fun": true, "do": true, "then": true, "else": true,
	"show": true, "have": true, "open": true, "instance": true, "let": true, "in": true, "where": true, "with": true,
	"match": true, "if": true, "for": true, "return": true, "by": true, "def": true, "theorem": true, "namespace": true,
	"section": true, "variable": true, "universe": true, "import": true, "mut": true, "try": true, "catch": true,
	"finally": true, "unless": true, "break": true, "continue": true, "deriving": true, "structure": true, "class": true,
	"inductive": true, "exists": true, "using": true, "calc": true, "suffices": true, "obtain": true, "Type": true, "Prop": true, "Sort": true}

func leanIdent(n string) string {
	if leanReserved[n] {
		return n + "_"
	}
	return n
}

func bytesLit(s string) string {
	if s == "" {
		return "([] : List UInt8)"
	}
	p := make([]string, len(s))
	for i := 0; i < len(s); i++ {
		p[i] = strconv.Itoa(int(s[i]))
	}
	return "([" + strings.Join(p, ", ") + "] : List UInt8)"
}

func (t *ftr) src(n ast.Node) string {
	var b bytes.Buffer
	printer.Fprint(&b, t.pkg.fset, n)
	return b.String()
}

func goType(e ast.Expr) *ty {
	switch e := e.(type) {
	case *ast.Ident:
		switch e.Name {
		case "string":
			return tText
		case "int":
			return tInt
		case "bool":
			return tBool
		case "byte":
			return tByte
		case "error":
			return tErr
		case "uintptr":
			return tInt
		case "any":
			// a value of type any is represented by the text it is rendered to (kr/pretty's Sprint for
			// snapshot values; the string itself or err.Error() for handleError's argument)
			return tText
		case "testingT":
			return tT
		case "set":
			return tSet
		case "MatcherError":
			return tMErr
		}
	case *ast.MapType:
		switch selName(e.Key) + ">" + func() string {
			if m, ok := e.Value.(*ast.MapType); ok {
				return "map[" + selName(m.Key) + "]" + selName(m.Value)
			}
			return selName(e.Value)
		}() {
		case "string>int":
			return tMap1
		case "string>map[string]int":
			return tMap2
		case "string>string":
			return tSMap
		case "uint8>int":
			// testEvents.items: keyed by the event kind; the keys are the names of the iota constants
			return tMap1
		}
	case *ast.FuncType:
		// func(*Config): an option; applying it may change the Config it is given (in-out)
		if e.Results == nil && len(e.Params.List) == 1 && selName(e.Params.List[0].Type) == "*Config" {
			return &ty{k: "func", params: []*ty{tCfg}, res: tCfg}
		}
		// func(string, int) string: a formatter; it may be a function that can panic
		if e.Results != nil && len(e.Results.List) == 1 && len(e.Params.List) == 2 &&
			selName(e.Params.List[0].Type) == "string" && selName(e.Params.List[1].Type) == "int" && selName(e.Results.List[0].Type) == "string" &&
			len(e.Params.List[0].Names) <= 1 && len(e.Params.List[1].Names) <= 1 {
			return &ty{k: "func", params: []*ty{tText, tInt}, res: tText, part: true}
		}
	case *ast.InterfaceType:
		if e.Methods == nil || len(e.Methods.List) == 0 {
			return tText
		}
	case *ast.Ellipsis:
		switch selName(e.Elt) {
		case "any":
			return tTexts
		case "match.JSONMatcher", "match.YAMLMatcher":
			return tMatchs
		case "CleanOpts":
			return tBools
		}
		if ft, ok := e.Elt.(*ast.FuncType); ok && ft.Results == nil && len(ft.Params.List) == 1 && selName(ft.Params.List[0].Type) == "*Config" {
			return &ty{k: "cfgopts"}
		}
	case *ast.SelectorExpr:
		switch selName(e) {
		case "match.JSONMatcher", "match.YAMLMatcher":
			return tMatch
		case "match.MatcherError":
			return tMErr
		case "io.Writer":
			// an io.Writer parameter is always the address of a strings.Builder in the translated code:
			// its content, in-out
			return tText
		}
	case *ast.ArrayType:
		if e.Len == nil {
			if id, ok := e.Elt.(*ast.Ident); ok {
				switch id.Name {
				case "byte":
					return tText
				case "string", "any":
					return tTexts
				}
			}
			if selName(e.Elt) == "match.MatcherError" || selName(e.Elt) == "MatcherError" {
				return tMErrs
			}
			if selName(e.Elt) == "difflib.OpCode" {
				return tOps
			}
		}
	case *ast.StarExpr:
		if id, ok := e.X.(*ast.Ident); ok && id.Name == "Config" {
			return tCfg
		}
		if selName(e.X) == "pretty.Options" {
			return tPOpts
		}
		if id, ok := e.X.(*ast.Ident); ok {
			switch id.Name {
			case "JSONConfig":
				return tJCfgO
			case "anyMatcher":
				return tAnyM
			case "customMatcher":
				return tCustM
			}
		}
		if ix, ok := e.X.(*ast.IndexExpr); ok && selName(ix.X) == "typeMatcher" {
			return tTypeM
		}
		if sel, ok := e.X.(*ast.SelectorExpr); ok {
			switch selName(sel) {
			case "bufio.Scanner":
				return tScan
			case "os.File":
				return tFile
			case "testing.M":
				return tUnit
			}
		}
	}
	return nil
}

// untyped constant literal (possibly negated / parenthesised)?
func isUntypedLit(e ast.Expr) bool {
	switch e := e.(type) {
	case *ast.BasicLit:
		return e.Kind == token.INT || e.Kind == token.CHAR
	case *ast.ParenExpr:
		return isUntypedLit(e.X)
	case *ast.UnaryExpr:
		return e.Op == token.SUB && isUntypedLit(e.X)
	}
	return false
}

func (t *ftr) stringLit(e ast.Expr) (string, bool) {
	if lit, ok := e.(*ast.BasicLit); ok && lit.Kind == token.STRING {
		v, err := strconv.Unquote(lit.Value)
		return v, err == nil
	}
	return "", false
}

func (t *ftr) expr(e ast.Expr) ex { return t.exprH(e, nil) }

// exprH translates e; hint is the type an untyped constant should take.
func (t *ftr) exprH(e ast.Expr, hint *ty) ex {
	if x, ok := t.ioExpr(e, hint); ok {
		if t.err != nil {
			return ex{"sorry", tBad, false}
		}
		return x
	}
	switch e := e.(type) {
	case *ast.ParenExpr:
		x := t.exprH(e.X, hint)
		return ex{"(" + x.s + ")", x.t, x.p}
	case *ast.Ident:
		if ty := t.lookup(e.Name); ty != nil {
			return ex{t.ln(e.Name), ty, false}
		}
		if p, ok := t.sp.externs[e.Name]; ok {
			return ex{p.name, p.t, false}
		}
		if t.consts[e.Name] {
			return ex{"GoSnaps.Generated.go_" + e.Name, tText, false}
		}
		if e.Name == "true" || e.Name == "false" {
			return ex{e.Name, tBool, false}
		}
		if v, ok := t.pkg.values[e.Name]; ok && t.lookup(e.Name) == nil {
			// an untyped integer constant of the package
			if bl, ok := v.(*ast.BasicLit); ok && bl.Kind == token.INT {
				return t.exprH(bl, hint)
			}
			// a negative integer constant, possibly typed (diffDelete diffmatchpatch.Operation = -1)
			if n, ok := t.pkg.constNegInt(e.Name); ok && (hint == nil || hint.k == "int") {
				return ex{fmt.Sprintf("(%d : Int)", n), tInt, false}
			}
			// a string constant of a package other than snaps (no Generated.go_<name> for those)
			if t.sp.pkg != "snaps" {
				if str, ok := t.pkg.constString(v); ok {
					return ex{bytesLit(str), tText, false}
				}
			}
		}
		return t.fail("unknown identifier %s (package variables must be declared as externs)", e.Name)
	case *ast.SelectorExpr:
		s := t.src(e)
		if p, ok := t.sp.externs[s]; ok {
			return ex{p.name, p.t, false}
		}
		if id, ok := e.X.(*ast.Ident); ok {
			if ty := t.lookup(id.Name); ty != nil && (ty.k == "registry" || ty.k == "sregistry") {
				if e.Sel.Name == "running" || e.Sel.Name == "cleanup" {
					ft := tMap2
					if ty.k == "sregistry" {
						ft = tMap1
					}
					return ex{t.ln(id.Name) + "." + e.Sel.Name, ft, false}
				}
			}
			if vt := t.lookup(id.Name); vt != nil && vt.k == "opcode" {
				if f := map[string]string{"Tag": "tag", "I1": "i1", "I2": "i2", "J1": "j1", "J2": "j2"}[e.Sel.Name]; f != "" {
					return ex{t.ln(id.Name) + "." + f, tInt, false}
				}
			}
			if vt := t.lookup(id.Name); vt != nil && (vt.k == "anym" || vt.k == "typem" || vt.k == "custm") {
				ft := matcherFieldTypes[e.Sel.Name]
				ok := ft != nil
				switch {
				case e.Sel.Name == "placeholder" && vt.k != "anym", e.Sel.Name == "expectedType" && vt.k != "typem",
					e.Sel.Name == "path" && vt.k != "custm", e.Sel.Name == "paths" && vt.k == "custm":
					ok = false
				}
				if ok {
					return ex{t.ln(id.Name) + "." + e.Sel.Name, ft, false}
				}
			}
			if ty := t.lookup(id.Name); ty != nil && ty.k == "cleanopt" && e.Sel.Name == "Sort" {
				return ex{t.ln(id.Name), tBool, false}
			}
			if ty := t.lookup(id.Name); ty != nil && ty.k == "merr" {
				switch e.Sel.Name {
				case "Matcher":
					return ex{t.ln(id.Name) + ".matcher", tText, false}
				case "Path":
					return ex{t.ln(id.Name) + ".path", tText, false}
				case "Reason":
					return ex{t.ln(id.Name) + ".reason", tErr, false}
				}
			}
			if ty := t.lookup(id.Name); ty != nil && ty.k == "cfg" {
				switch e.Sel.Name {
				case "filename", "extension", "snapsDir":
					return ex{t.ln(id.Name) + "." + e.Sel.Name, tText, false}
				case "update":
					return ex{t.ln(id.Name) + ".update", tOptB, false}
				}
			}
		}
		// a field of a diffmatchpatch.Diff value: a local variable or an element `diffs[i]`
		if f := map[string]string{"Type": "type", "Text": "text"}[e.Sel.Name]; f != "" {
			_, isIdx := e.X.(*ast.IndexExpr)
			id, isId := e.X.(*ast.Ident)
			if isIdx || (isId && t.lookup(id.Name) != nil && t.lookup(id.Name).k == "chunk") {
				x := t.expr(e.X)
				if t.err != nil {
					return ex{"sorry", tBad, false}
				}
				if x.t.k == "chunk" {
					ft := tInt
					if f == "text" {
						ft = tText
					}
					return ex{x.s + "." + f, ft, x.p}
				}
			}
		}
		return t.fail("unsupported selector %s", s)
	case *ast.BasicLit:
		switch e.Kind {
		case token.STRING:
			v, err := strconv.Unquote(e.Value)
			if err != nil {
				return t.fail("bad string literal %s", e.Value)
			}
			return ex{bytesLit(v), tText, false}
		case token.INT:
			n, err := strconv.ParseInt(e.Value, 0, 64)
			if err != nil {
				return t.fail("bad integer literal %s", e.Value)
			}
			if hint != nil && hint.k == "byte" {
				if n < 0 || n > 255 {
					return t.fail("constant %d overflows byte", n)
				}
				return ex{fmt.Sprintf("(%d : UInt8)", n), tByte, false}
			}
			if hint != nil && hint.k != "int" {
				return t.fail("integer literal %s used at type %s", e.Value, hint.lean())
			}
			return ex{fmt.Sprintf("(%d : Int)", n), tInt, false}
		case token.CHAR:
			r, _, _, err := strconv.UnquoteChar(e.Value[1:len(e.Value)-1], '\'')
			if err != nil {
				return t.fail("bad char literal %s", e.Value)
			}
			if hint == nil || hint.k != "byte" {
				return t.fail("rune constant %s outside a byte context", e.Value)
			}
			if r < 0 || r > 255 {
				return t.fail("constant %s overflows byte", e.Value)
			}
			return ex{fmt.Sprintf("(%d : UInt8)", r), tByte, false}
		}
		return t.fail("unsupported literal %s", e.Value)
	case *ast.UnaryExpr:
		switch e.Op {
		case token.NOT:
			x := t.expr(e.X)
			if x.t.k != "bool" {
				return t.fail("! applied to %s", x.t.lean())
			}
			return ex{"(!" + x.s + ")", tBool, x.p}
		case token.SUB:
			if lit, ok := e.X.(*ast.BasicLit); ok && lit.Kind == token.INT && (hint == nil || hint.k == "int") {
				n, err := strconv.ParseInt(lit.Value, 0, 64)
				if err != nil {
					return t.fail("bad integer literal %s", lit.Value)
				}
				return ex{fmt.Sprintf("(-%d : Int)", n), tInt, false}
			}
			x := t.exprH(e.X, hint)
			if x.t.k != "int" {
				return t.fail("unary - applied to %s", x.t.lean())
			}
			return ex{"(-" + x.s + ")", tInt, x.p}
		}
		return t.fail("unsupported unary operator %s", e.Op)
	case *ast.BinaryExpr:
		return t.binary(e)
	case *ast.CallExpr:
		return t.call(e)
	case *ast.IndexExpr:
		// strings.Split(s, sep)[0]: Split never returns an empty slice, element 0 is the text before
		// the first separator
		if c, ok := e.X.(*ast.CallExpr); ok && selName(c.Fun) == "strings.Split" && len(c.Args) == 2 {
			if lit, ok := e.Index.(*ast.BasicLit); ok && lit.Kind == token.INT && lit.Value == "0" {
				if sep, ok := t.stringLit(c.Args[1]); ok && sep != "" {
					s := t.expr(c.Args[0])
					if s.t.k != "text" {
						return t.fail("strings.Split applied to %s", s.t.lean())
					}
					return ex{"(GoSnaps.GoSem.splitHead " + s.s + " " + bytesLit(sep) + ")", tText, s.p}
				}
			}
			return t.fail("strings.Split(...)[i] is supported only for index 0 and a non-empty literal separator")
		}
		x := t.expr(e.X)
		if t.err == nil && (x.t.k == "map1" || x.t.k == "map2") {
			k := t.expr(e.Index)
			if t.err != nil {
				return ex{"sorry", tBad, false}
			}
			if k.t.k != "text" {
				return t.fail("map key of type %s", k.t.lean())
			}
			if x.t.k == "map2" {
				return ex{"(GoSnaps.GoIO.map2Inner " + x.s + " " + k.s + ")", tMap1, x.p || k.p}
			}
			return ex{"(GoSnaps.GoIO.map1Get " + x.s + " " + k.s + ")", tInt, x.p || k.p}
		}
		i := t.exprH(e.Index, tInt)
		if i.t.k != "int" {
			return t.fail("index of type %s", i.t.lean())
		}
		var et *ty
		switch x.t.k {
		case "text":
			et = tByte
		case "bools":
			et = tCOpt
		case "opcodes":
			et = tOp
		case "texts":
			et = tText
		case "chunks":
			et = tChunk
		default:
			return t.fail("indexing a value of type %s", x.t.lean())
		}
		t.partial = true
		return ex{"(← GoSnaps.GoSem.index " + x.s + " " + i.s + ")", et, true}
	case *ast.SliceExpr:
		if e.Slice3 {
			return t.fail("3-index slice")
		}
		x := t.expr(e.X)
		if x.t.k != "text" && x.t.k != "texts" {
			return t.fail("slicing a value of type %s", x.t.lean())
		}
		lo, hi := "(0 : Int)", "(GoSnaps.GoSem.len "+x.s+")"
		if e.Low != nil {
			l := t.exprH(e.Low, tInt)
			if l.t.k != "int" {
				return t.fail("slice bound of type %s", l.t.lean())
			}
			lo = l.s
		}
		if e.High != nil {
			h := t.exprH(e.High, tInt)
			if h.t.k != "int" {
				return t.fail("slice bound of type %s", h.t.lean())
			}
			hi = h.s
		}
		t.partial = true
		return ex{"(← GoSnaps.GoSem.slice " + x.s + " " + lo + " " + hi + ")", x.t, true}
	}
	return t.fail("unsupported expression %T", e)
}

func (t *ftr) binary(e *ast.BinaryExpr) ex {
	var x, y ex
	if isUntypedLit(e.X) && !isUntypedLit(e.Y) {
		y = t.expr(e.Y)
		x = t.exprH(e.X, y.t)
	} else {
		x = t.expr(e.X)
		y = t.exprH(e.Y, x.t)
	}
	if t.err != nil {
		return ex{"sorry", tBad, false}
	}
	if !x.t.eq(y.t) {
		return t.fail("operands of %s have different types: %s, %s", e.Op, x.t.lean(), y.t.lean())
	}
	p := x.p || y.p
	k := x.t.k
	switch e.Op {
	case token.ADD:
		switch k {
		case "text":
			return ex{"(" + x.s + " ++ " + y.s + ")", tText, p}
		case "int":
			return ex{"(" + x.s + " + " + y.s + ")", tInt, p}
		}
	case token.SUB:
		if k == "int" {
			return ex{"(" + x.s + " - " + y.s + ")", tInt, p}
		}
	case token.QUO:
		if k == "int" {
			t.partial = true
			return ex{"(← GoSnaps.GoIO.intDiv " + x.s + " " + y.s + ")", tInt, true}
		}
	case token.EQL, token.NEQ:
		if k == "text" || k == "int" || k == "byte" || k == "bool" {
			op := " == "
			if e.Op == token.NEQ {
				op = " != "
			}
			return ex{"(" + x.s + op + y.s + ")", tBool, p}
		}
	case token.LSS, token.GTR, token.LEQ, token.GEQ:
		if k == "int" || k == "byte" {
			op := map[token.Token]string{token.LSS: " < ", token.GTR: " > ", token.LEQ: " ≤ ", token.GEQ: " ≥ "}[e.Op]
			return ex{"(decide (" + x.s + op + y.s + "))", tBool, p}
		}
	case token.LAND, token.LOR:
		if k != "bool" {
			break
		}
		if !y.p {
			op := " && "
			if e.Op == token.LOR {
				op = " || "
			}
			return ex{"(" + x.s + op + y.s + ")", tBool, p}
		}
		// the right operand can panic: evaluate it only when Go does
		if e.Op == token.LAND {
			return ex{"(← (do if " + x.s + " then pure " + y.s + " else pure false))", tBool, true}
		}
		return ex{"(← (do if " + x.s + " then pure true else pure " + y.s + "))", tBool, true}
	}
	return t.fail("unsupported operator %s on %s", e.Op, x.t.lean())
}

func (t *ftr) args(name string, call *ast.CallExpr, params []*ty) ([]string, bool, bool) {
	if len(call.Args) != len(params) {
		t.fail("%s: %d arguments, expected %d", name, len(call.Args), len(params))
		return nil, false, false
	}
	out := make([]string, len(params))
	p := false
	for i, a := range call.Args {
		if params[i].k == "func" {
			if id, ok := a.(*ast.Ident); ok && t.lookup(id.Name) == nil {
				if d, ok := t.funcs[t.sp.pkg+"."+id.Name]; ok && len(d.spec.extra) == 0 && d.spec.fx == "" && len(d.params) == len(params[i].params) && len(d.rets) == 1 && d.rets[0].eq(params[i].res) {
					f := d.ns() + leanDefName(id.Name)
					if params[i].part && !d.partial {
						f = "(fun a b => some (" + f + " a b))"
					} else if !params[i].part && d.partial {
						t.fail("%s: the function %s can panic", name, id.Name)
						return nil, false, false
					}
					out[i] = f
					continue
				}
			}
			if id, ok := a.(*ast.Ident); ok && t.lookup(id.Name) != nil && t.lookup(id.Name).k == "func" {
				out[i] = t.ln(id.Name)
				continue
			}
			t.fail("%s: argument %d must be a translated function", name, i+1)
			return nil, false, false
		}
		x := t.exprH(a, params[i])
		if t.err != nil {
			return nil, false, false
		}
		if params[i].k == "text" && x.t.k == "err" && t.anyArg(name, i) {
			x = ex{"(" + x.s + ").text", tText, x.p}
		}
		if !x.t.eq(params[i]) {
			t.fail("%s: argument %d has type %s, expected %s", name, i+1, x.t.lean(), params[i].lean())
			return nil, false, false
		}
		out[i] = x.s
		p = p || x.p
	}
	return out, p, true
}

func (t *ftr) call(e *ast.CallExpr) ex {
	if e.Ellipsis != token.NoPos && selName(e.Fun) != "append" {
		// f(xs...) passes the slice itself: the translated callee takes the list
		if _, ok := t.funcs[t.sp.pkg+"."+selName(e.Fun)]; !ok {
			return t.fail("call with ...")
		}
	}
	if selName(e.Fun) == "append" && len(e.Args) == 2 {
		x, y := t.expr(e.Args[0]), t.expr(e.Args[1])
		if t.err != nil {
			return ex{"sorry", tBad, false}
		}
		if e.Ellipsis != token.NoPos && x.t.eq(y.t) && (x.t.k == "merrs" || x.t.k == "texts") {
			return ex{"(" + x.s + " ++ " + y.s + ")", x.t, x.p || y.p}
		}
		if e.Ellipsis == token.NoPos && x.t.k == "texts" && y.t.k == "text" {
			return ex{"(" + x.s + " ++ [" + y.s + "])", x.t, x.p || y.p}
		}
		if e.Ellipsis == token.NoPos && x.t.k == "merrs" && y.t.k == "merr" {
			return ex{"(" + x.s + " ++ [" + y.s + "])", x.t, x.p || y.p}
		}
		return t.fail("unsupported append %s", t.src(e))
	}
	// a call with exactly these arguments declared opaque (made a parameter)
	if p, ok := t.sp.externs[t.src(e)]; ok {
		return ex{p.name, p.t, false}
	}
	// dmp.DiffCleanupSemantic(dmp.DiffMain(x, y, false)) with dmp = diffmatchpatch.New(): this exact
	// composition is the function parameter declared for it (the library is not modelled)
	if selName(e.Fun) == "dmp.DiffCleanupSemantic" || selName(e.Fun) == "dmp.DiffMain" {
		p, ok := t.sp.extFns["dmp.DiffCleanupSemantic(dmp.DiffMain)"]
		if !ok {
			return t.fail("%s: the function has no parameter for diffmatchpatch", selName(e.Fun))
		}
		nw, isNew := t.pkg.values["dmp"].(*ast.CallExpr)
		if t.lookup("dmp") != nil || !isNew || selName(nw.Fun) != "diffmatchpatch.New" || len(nw.Args) != 0 || t.pkg.isConst["dmp"] {
			return t.fail("dmp is not the package variable initialised by diffmatchpatch.New()")
		}
		var inner *ast.CallExpr
		if selName(e.Fun) == "dmp.DiffCleanupSemantic" && len(e.Args) == 1 {
			inner, _ = e.Args[0].(*ast.CallExpr)
		}
		if inner == nil || selName(inner.Fun) != "dmp.DiffMain" || len(inner.Args) != 3 || inner.Ellipsis != token.NoPos {
			return t.fail("diffmatchpatch is called other than by dmp.DiffCleanupSemantic(dmp.DiffMain(x, y, false)): %s", t.src(e))
		}
		if cl, ok := inner.Args[2].(*ast.Ident); !ok || cl.Name != "false" || t.lookup("false") != nil {
			return t.fail("dmp.DiffMain: the checklines argument must be the literal false: %s", t.src(inner))
		}
		two := *inner
		two.Args = inner.Args[:2]
		a, pp, ok := t.args("dmp.DiffMain", &two, p.t.params)
		if !ok {
			return ex{"sorry", tBad, false}
		}
		return ex{"(" + p.name + " " + strings.Join(a, " ") + ")", p.t.res, pp}
	}
	// conversions between string and []byte: identity on List UInt8
	if at, ok := e.Fun.(*ast.ArrayType); ok {
		if ty := goType(at); ty != nil && ty.k == "text" && len(e.Args) == 1 {
			x := t.expr(e.Args[0])
			if x.t.k != "text" {
				return t.fail("[]byte(%s)", x.t.lean())
			}
			return x
		}
		return t.fail("unsupported conversion %s", t.src(e.Fun))
	}
	name := selName(e.Fun)
	if ix, ok := e.Fun.(*ast.IndexExpr); ok {
		// an explicit instantiation f[T](x): the type argument is fixed by the receiver's value
		name = selName(ix.X)
	}
	if id, ok := e.Fun.(*ast.Ident); ok {
		// local function value
		if ty := t.lookup(id.Name); ty != nil {
			if ty.k != "func" {
				return t.fail("calling %s of type %s", id.Name, ty.lean())
			}
			a, p, ok := t.args(name, e, ty.params)
			if !ok {
				return ex{"sorry", tBad, false}
			}
			if ty.part {
				t.partial = true
				return ex{"(← " + t.ln(id.Name) + " " + strings.Join(a, " ") + ")", ty.res, true}
			}
			return ex{"(" + t.ln(id.Name) + " " + strings.Join(a, " ") + ")", ty.res, p}
		}
		switch id.Name {
		case "string":
			if len(e.Args) == 1 {
				x := t.expr(e.Args[0])
				if x.t.k != "text" {
					return t.fail("string(%s) is supported for []byte only", x.t.lean())
				}
				return x
			}
		case "len":
			if len(e.Args) == 1 {
				x := t.expr(e.Args[0])
				switch x.t.k {
				case "text", "texts", "merrs", "matchers", "map1", "map2", "smap", "set", "bools", "opcodes", "opgroups", "chunks":
					// (a Go map holds each key once, as the association lists built by map*Set do)
				default:
					return t.fail("len of %s", x.t.lean())
				}
				return ex{"(GoSnaps.GoSem.len " + x.s + ")", tInt, x.p}
			}
		}
		// a previously translated function of the same package
		if d, ok := t.funcs[t.sp.pkg+"."+id.Name]; ok {
			var lead []string
			for _, xp := range d.spec.extra {
				found := false
				for _, mine := range t.sp.extra {
					if mine.name == xp.name && mine.t.lean() == xp.t.lean() {
						found = true
					}
				}
				if c, isFixed := t.sp.fixed[xp.name]; !found && isFixed {
					lead = append(lead, c)
					continue
				}
				if !found {
					return t.fail("call of %s needs parameter %s, which %s does not have", id.Name, xp.name, t.sp.name)
				}
				lead = append(lead, xp.name)
			}
			a, p, ok := t.args(name, e, d.params)
			if !ok {
				return ex{"sorry", tBad, false}
			}
			if d.spec.fx != "" || len(d.spec.inout) > 0 {
				return t.fail("the effectful function %s is called inside an expression", id.Name)
			}
			s := d.ns() + id.Name + " " + strings.Join(append(lead, a...), " ")
			if d.partial {
				t.partial = true
				return ex{"(← " + s + ")", d.res, true}
			}
			return ex{"(" + s + ")", d.res, p}
		}
	}
	if p, ok := t.sp.extFns[name]; ok {
		// a method of a local value (m.JSON(b)): the receiver is the first argument of the parameter
		if rid, _, _, isM := recvCall(e); isM && t.lookup(rid.Name) != nil && len(p.t.params) == len(e.Args)+1 {
			r := t.expr(rid)
			if t.err != nil || !r.t.eq(p.t.params[0]) {
				return t.fail("%s: receiver of type %s", name, r.t.lean())
			}
			a, pp, ok := t.args(name, e, p.t.params[1:])
			if !ok {
				return ex{"sorry", tBad, false}
			}
			return ex{"(" + p.name + " " + r.s + " " + strings.Join(a, " ") + ")", p.t.res, pp}
		}
		a, pp, ok := t.args(name, e, p.t.params)
		if !ok {
			return ex{"sorry", tBad, false}
		}
		return ex{"(" + p.name + " " + strings.Join(a, " ") + ")", p.t.res, pp}
	}
	switch name {
	case "strings.ReplaceAll":
		if len(e.Args) == 3 {
			if old, ok := t.stringLit(e.Args[1]); ok && len(old) == 1 {
				s, n := t.expr(e.Args[0]), t.expr(e.Args[2])
				if s.t.k != "text" || n.t.k != "text" {
					return t.fail("strings.ReplaceAll argument types")
				}
				return ex{fmt.Sprintf("(GoSnaps.replaceByte %s %d %s)", s.s, old[0], n.s), tText, s.p || n.p}
			}
		}
		return t.fail("strings.ReplaceAll is supported for a one-byte literal pattern only")
	case "strings.Split", "strings.SplitAfter", "strings.Join":
		if len(e.Args) == 2 {
			if sep, ok := t.stringLit(e.Args[1]); ok && sep == "\n" {
				s := t.expr(e.Args[0])
				switch {
				case name == "strings.Split" && s.t.k == "text":
					return ex{"(GoSnaps.lines " + s.s + ")", tTexts, s.p}
				case name == "strings.SplitAfter" && s.t.k == "text":
					return ex{"(GoSnaps.GoSem.splitAfterNL " + s.s + ")", tTexts, s.p}
				case name == "strings.Join" && s.t.k == "texts":
					return ex{"(GoSnaps.unlines " + s.s + ")", tText, s.p}
				}
				return t.fail("%s applied to %s", name, s.t.lean())
			}
		}
		if name == "strings.Join" && len(e.Args) == 2 {
			if sep, ok := t.stringLit(e.Args[1]); ok && sep == "" {
				x := t.expr(e.Args[0])
				if t.err == nil && x.t.k == "texts" {
					return ex{"(List.flatten " + x.s + ")", tText, x.p}
				}
			}
		}
		return t.fail("%s is supported for the literal separator \"\\n\" only (and strings.Split(s, sep)[0])", name)
	}
	if f, ok := libTable[name]; ok {
		if f.variadic {
			var a []string
			p := false
			for i, arg := range e.Args {
				x := t.expr(arg)
				if t.err != nil {
					return ex{"sorry", tBad, false}
				}
				if !x.t.eq(f.params[0]) {
					return t.fail("%s: argument %d has type %s", name, i+1, x.t.lean())
				}
				a = append(a, x.s)
				p = p || x.p
			}
			return ex{"(" + f.lean + " [" + strings.Join(a, ", ") + "])", f.res, p}
		}
		a, p, ok := t.args(name, e, f.params)
		if !ok {
			return ex{"sorry", tBad, false}
		}
		if f.partial {
			t.partial = true
			return ex{"(← " + f.lean + " " + strings.Join(a, " ") + ")", f.res, true}
		}
		return ex{"(" + f.lean + " " + strings.Join(a, " ") + ")", f.res, p}
	}
	return t.fail("unsupported call %s", t.src(e))
}

// assignedIn: names assigned (whole) and names index-assigned in the statements
func assignedIn(n ast.Node) (whole, indexed map[string]bool) {
	whole, indexed = map[string]bool{}, map[string]bool{}
	defined := map[string]bool{}
	mark := func(l ast.Expr) {
		switch l := l.(type) {
		case *ast.Ident:
			whole[l.Name] = true
		case *ast.IndexExpr:
			if id, ok := l.X.(*ast.Ident); ok {
				indexed[id.Name] = true
			} else {
				whole["?"] = true
			}
		default:
			whole["?"] = true
		}
	}
	ast.Inspect(n, func(n ast.Node) bool {
		switch s := n.(type) {
		case *ast.AssignStmt:
			for _, l := range s.Lhs {
				if id, ok := l.(*ast.Ident); ok && s.Tok == token.DEFINE {
					if defined[id.Name] {
						whole[id.Name+"#2"] = true
					}
					defined[id.Name] = true
				}
				mark(l)
			}
		case *ast.IncDecStmt:
			mark(s.X)
		case *ast.RangeStmt:
			if s.Key != nil {
				mark(s.Key)
			}
			if s.Value != nil {
				mark(s.Value)
			}
		}
		return true
	})
	return
}

func identsIn(e ast.Expr) map[string]bool {
	out := map[string]bool{}
	ast.Inspect(e, func(n ast.Node) bool {
		if id, ok := n.(*ast.Ident); ok {
			out[id.Name] = true
		}
		return true
	})
	return out
}

func (t *ftr) stmtFail(b *strings.Builder, ind, f string, a ...any) {
	t.fail(f, a...)
	b.WriteString(ind + "sorry\n")
}

func (t *ftr) define(b *strings.Builder, ind, name string, x ex) {
	if name == "_" {
		return
	}
	lean := leanIdent(name)
	if t.lookup(name) != nil && t.lookupLocal(name) == nil {
		// the definition shadows a variable of an enclosing scope: Lean does not allow shadowing a
		// `let mut`, and a fresh name also rules out accidental capture
		t.tmp++
		lean = fmt.Sprintf("%s_%d", leanIdent(name), t.tmp)
	}
	t.defineAs(b, ind, name, lean, x)
}

func (t *ftr) defineAs(b *strings.Builder, ind, name, lean string, x ex) {
	if t.muts[name] || x.t.k == "file" || x.t.k == "scanner" || t.builder[name] {
		fmt.Fprintf(b, "%slet mut %s := %s\n", ind, lean, x.s)
	} else {
		fmt.Fprintf(b, "%slet %s := %s\n", ind, lean, x.s)
	}
	t.bind(name, x.t)
	if lean != leanIdent(name) {
		t.ren[len(t.ren)-1][name] = lean
	}
}

func (t *ftr) assign(b *strings.Builder, ind string, s *ast.AssignStmt) {
	// _ = x: evaluates a variable and discards it
	if len(s.Lhs) == 1 && len(s.Rhs) == 1 && s.Tok == token.ASSIGN {
		if l, ok := s.Lhs[0].(*ast.Ident); ok && l.Name == "_" {
			if r, ok := s.Rhs[0].(*ast.Ident); ok && t.lookup(r.Name) != nil {
				fmt.Fprintf(b, "%s-- %s\n", ind, t.src(s))
				return
			}
		}
	}
	// an effectful call as the whole right-hand side: emit it first, then use its results
	var pre *ex
	if len(s.Rhs) == 1 {
		if fr, ok := t.fxCall(s.Rhs[0]); ok {
			if fr == nil || t.err != nil {
				b.WriteString(ind + "sorry\n")
				return
			}
			x := t.emitFx(b, ind, fr)
			pre = &x
		}
	}
	// multi-value: a, b[, c] := f(x)
	if len(s.Lhs) >= 2 && len(s.Rhs) == 1 && (s.Tok == token.DEFINE || s.Tok == token.ASSIGN) {
		var x ex
		if pre != nil {
			x = *pre
		} else {
			x = t.exprMulti(s.Rhs[0], len(s.Lhs))
		}
		if t.err != nil {
			b.WriteString(ind + "sorry\n")
			return
		}
		n := len(s.Lhs)
		cts := comps(x.t, n)
		if cts == nil {
			t.stmtFail(b, ind, "%d-value assignment from %s", n, x.t.lean())
			return
		}
		var names []string
		for _, l := range s.Lhs {
			id, ok := l.(*ast.Ident)
			if !ok {
				t.stmtFail(b, ind, "multi-value assignment to %s", t.src(l))
				return
			}
			names = append(names, id.Name)
		}
		val := x.s
		used := 0
		for _, nm := range names {
			if nm != "_" {
				used++
			}
		}
		if used > 1 && pre == nil {
			t.tmp++
			val = fmt.Sprintf("r_%d", t.tmp)
			fmt.Fprintf(b, "%slet %s := %s\n", ind, val, x.s)
		}
		for i, nm := range names {
			if nm == "_" {
				continue
			}
			comp := ex{proj(val, i, n), cts[i], x.p}
			if s.Tok == token.DEFINE && t.lookupLocal(nm) == nil {
				t.define(b, ind, nm, comp)
			} else {
				old := t.lookup(nm)
				if old == nil || !old.eq(comp.t) {
					t.stmtFail(b, ind, "assignment to %s: unknown variable or type mismatch", nm)
					return
				}
				fmt.Fprintf(b, "%s%s := %s\n", ind, t.ln(nm), comp.s)
			}
		}
		return
	}
	if len(s.Lhs) == len(s.Rhs) && len(s.Lhs) > 1 && s.Tok == token.DEFINE {
		// a, b := x, y with fresh variables on the left: the right-hand sides cannot see them
		var xs []ex
		for i, r := range s.Rhs {
			id, ok := s.Lhs[i].(*ast.Ident)
			if !ok || t.lookupLocal(id.Name) != nil {
				t.stmtFail(b, ind, "unsupported parallel definition %s", t.src(s))
				return
			}
			xs = append(xs, t.expr(r))
			if t.err != nil {
				b.WriteString(ind + "sorry\n")
				return
			}
		}
		for i, x := range xs {
			t.define(b, ind, s.Lhs[i].(*ast.Ident).Name, x)
		}
		return
	}
	if len(s.Lhs) != 1 || len(s.Rhs) != 1 {
		t.stmtFail(b, ind, "unsupported multi-assignment %s", t.src(s))
		return
	}
	// assignment to a field of a matcher receiver: a.placeholder = p
	if sel, ok := s.Lhs[0].(*ast.SelectorExpr); ok && s.Tok == token.ASSIGN && len(s.Lhs) == 1 {
		if id, ok := sel.X.(*ast.Ident); ok && t.lookup(id.Name) != nil {
			switch t.lookup(id.Name).k {
			case "anym", "typem", "custm", "cfg":
				if t.lookup(id.Name).k == "cfg" && t.sp.recv != "" && strings.HasPrefix(t.sp.recv, id.Name+":") {
					t.stmtFail(b, ind, "assignment through the *Config receiver %s", id.Name)
					return
				}
				cur := t.expr(sel)
				if t.err != nil {
					b.WriteString(ind + "sorry\n")
					return
				}
				x := t.exprH(s.Rhs[0], cur.t)
				if t.err != nil {
					b.WriteString(ind + "sorry\n")
					return
				}
				if !x.t.eq(cur.t) || x.p {
					t.stmtFail(b, ind, "field assignment %s", t.src(s))
					return
				}
				fmt.Fprintf(b, "%s%s := { %s with %s := %s }\n", ind, t.ln(id.Name), t.ln(id.Name), sel.Sel.Name, x.s)
				return
			}
		}
	}
	// assignment to a map entry of the receiver
	if ix, ok := s.Lhs[0].(*ast.IndexExpr); ok {
		if t.mapAssign(b, ind, ix, s.Tok, s.Rhs[0]) {
			return
		}
	}
	// index assignment
	if ix, ok := s.Lhs[0].(*ast.IndexExpr); ok {
		id, ok := ix.X.(*ast.Ident)
		if !ok {
			t.stmtFail(b, ind, "index assignment to %s", t.src(ix.X))
			return
		}
		xt := t.lookup(id.Name)
		if xt == nil || (xt.k != "texts" && xt.k != "text") {
			t.stmtFail(b, ind, "index assignment to %s", id.Name)
			return
		}
		et := tText
		if xt.k == "text" {
			et = tByte
		}
		inRange, ranged := false, false
		for _, l := range t.loops {
			if l.slice == id.Name {
				ranged = true
				if k, ok := ix.Index.(*ast.Ident); ok && k.Name == l.idx {
					inRange = true
				}
			}
		}
		if ranged && !inRange {
			t.stmtFail(b, ind, "%s is modified inside a range over it at an index other than the loop index", id.Name)
			return
		}
		i := t.exprH(ix.Index, tInt)
		v := t.exprH(s.Rhs[0], et)
		if t.err != nil {
			b.WriteString(ind + "sorry\n")
			return
		}
		if i.t.k != "int" || !v.t.eq(et) {
			t.stmtFail(b, ind, "index assignment types: %s", t.src(s))
			return
		}
		nm := t.ln(id.Name)
		val := v.s
		switch s.Tok {
		case token.ASSIGN:
		case token.ADD_ASSIGN:
			if et.k != "text" {
				t.stmtFail(b, ind, "+= on an element of type %s", et.lean())
				return
			}
			t.partial = true
			val = "((← GoSnaps.GoSem.index " + nm + " " + i.s + ") ++ " + v.s + ")"
		default:
			t.stmtFail(b, ind, "assignment operator %s on an element", s.Tok)
			return
		}
		if inRange && s.Tok == token.ASSIGN {
			fmt.Fprintf(b, "%s%s := GoSnaps.GoSem.setAt %s %s %s\n", ind, nm, nm, i.s, val)
		} else {
			t.partial = true
			fmt.Fprintf(b, "%s%s := (← GoSnaps.GoSem.setIndex %s %s %s)\n", ind, nm, nm, i.s, val)
		}
		return
	}
	id, ok := s.Lhs[0].(*ast.Ident)
	if !ok {
		t.stmtFail(b, ind, "assignment to %s", t.src(s.Lhs[0]))
		return
	}
	name := id.Name
	// function literal
	if fl, ok := s.Rhs[0].(*ast.FuncLit); ok && s.Tok == token.DEFINE {
		t.funcLit(b, ind, name, fl)
		return
	}
	if fv, ok := t.funcValue(s.Rhs[0]); ok {
		if t.err != nil {
			b.WriteString(ind + "sorry\n")
			return
		}
		if s.Tok == token.DEFINE {
			t.define(b, ind, name, fv)
			return
		}
		old := t.lookup(name)
		if old == nil || !old.eq(fv.t) {
			t.stmtFail(b, ind, "assignment of a function of a different type to %s", name)
			return
		}
		fmt.Fprintf(b, "%s%s := %s\n", ind, t.ln(name), fv.s)
		return
	}
	if s.Tok == token.DEFINE {
		var x ex
		if pre != nil {
			x = *pre
		} else if cl, ok := s.Rhs[0].(*ast.CompositeLit); ok && t.isBuilderType(cl.Type) && len(cl.Elts) == 0 {
			x = ex{"([] : List UInt8)", tText, false}
			t.builder[name] = true
		} else if t.isNewBuilder(s.Rhs[0]) {
			// a := &bytes.Buffer{}: a pointer to a fresh buffer, modelled by the buffer's content; the
			// pointer is never copied (checkPtrBuilders), so there is exactly one name for the buffer
			x = ex{"([] : List UInt8)", tText, false}
			t.builder[name] = true
		} else {
			x = t.expr(s.Rhs[0])
		}
		if t.err != nil {
			b.WriteString(ind + "sorry\n")
			return
		}
		if name == "_" {
			t.stmtFail(b, ind, "_ := …")
			return
		}
		t.define(b, ind, name, x)
		return
	}
	if name == "_" && pre != nil {
		return
	}
	old := t.lookup(name)
	if old == nil {
		t.stmtFail(b, ind, "assignment to %s, which is not a local variable", name)
		return
	}
	var x ex
	if pre != nil {
		x = *pre
	} else {
		x = t.exprH(s.Rhs[0], old)
	}
	if t.err != nil {
		b.WriteString(ind + "sorry\n")
		return
	}
	if !x.t.eq(old) {
		t.stmtFail(b, ind, "assignment to %s: %s := %s", name, old.lean(), x.t.lean())
		return
	}
	nm := t.ln(name)
	switch {
	case s.Tok == token.ASSIGN:
		fmt.Fprintf(b, "%s%s := %s\n", ind, nm, x.s)
	case s.Tok == token.ADD_ASSIGN && old.k == "text":
		fmt.Fprintf(b, "%s%s := %s ++ %s\n", ind, nm, nm, x.s)
	case s.Tok == token.ADD_ASSIGN && old.k == "int":
		fmt.Fprintf(b, "%s%s := %s + %s\n", ind, nm, nm, x.s)
	case s.Tok == token.SUB_ASSIGN && old.k == "int":
		fmt.Fprintf(b, "%s%s := %s - %s\n", ind, nm, nm, x.s)
	default:
		t.stmtFail(b, ind, "assignment operator %s on %s", s.Tok, old.lean())
	}
}

// funcValue: an identifier naming a translated function, or a function parameter standing for one,
// used as a VALUE (`differ := getUnifiedDiff`).  The value is the function with this function's own
// extra parameters applied; its result is in Option (function values that can be exchanged must have
// one type: a total function is wrapped in `some`).
func (t *ftr) funcValue(e ast.Expr) (ex, bool) {
	id, ok := e.(*ast.Ident)
	if !ok || t.lookup(id.Name) != nil {
		return ex{}, false
	}
	if p, ok := t.sp.extFns[id.Name]; ok && p.t.k == "func" {
		var bs, as []string
		for i := range p.t.params {
			bs = append(bs, fmt.Sprintf("a%d", i))
			as = append(as, fmt.Sprintf("a%d", i))
		}
		ft := &ty{k: "func", params: p.t.params, res: p.t.res, part: true}
		return ex{"(fun " + strings.Join(bs, " ") + " => some (" + p.name + " " + strings.Join(as, " ") + "))", ft, false}, true
	}
	d, ok := t.funcs[t.sp.pkg+"."+id.Name]
	if !ok || d.spec.fx != "" || len(d.spec.inout) > 0 {
		return ex{}, false
	}
	var lead []string
	for _, xp := range d.spec.extra {
		found := false
		for _, mine := range t.sp.extra {
			if mine.name == xp.name && mine.t.lean() == xp.t.lean() {
				found = true
			}
		}
		if !found {
			t.fail("function value %s needs parameter %s", id.Name, xp.name)
			return ex{}, true
		}
		lead = append(lead, xp.name)
	}
	var bs []string
	for i := range d.params {
		bs = append(bs, fmt.Sprintf("a%d", i))
	}
	call := d.ns() + leanDefName(id.Name) + " " + strings.Join(append(lead, bs...), " ")
	if !d.partial {
		call = "some (" + call + ")"
	}
	ft := &ty{k: "func", params: d.params, res: nestedPair(d.rets), part: true}
	return ex{"(fun " + strings.Join(bs, " ") + " => " + call + ")", ft, false}, true
}

func (t *ftr) lookupLocal(n string) *ty { return t.env[len(t.env)-1][n] }

// f := func(p T) (r R) { return e }
func (t *ftr) funcLit(b *strings.Builder, ind, name string, fl *ast.FuncLit) {
	var ps []param
	for _, f := range fl.Type.Params.List {
		pt := goType(f.Type)
		if pt == nil || len(f.Names) == 0 {
			t.stmtFail(b, ind, "function literal parameter %s", t.src(f.Type))
			return
		}
		for _, n := range f.Names {
			ps = append(ps, param{n.Name, pt})
		}
	}
	if fl.Type.Results == nil {
		t.closure(b, ind, name, fl, ps)
		return
	}
	if fl.Type.Results == nil || len(fl.Type.Results.List) != 1 || len(fl.Type.Results.List[0].Names) > 1 {
		t.stmtFail(b, ind, "function literal must have one result")
		return
	}
	rt := goType(fl.Type.Results.List[0].Type)
	ret, ok := fl.Body.List[0].(*ast.ReturnStmt)
	if rt == nil || len(fl.Body.List) != 1 || !ok || len(ret.Results) != 1 {
		t.stmtFail(b, ind, "function literal body must be a single `return e`")
		return
	}
	// the body sees its parameters only (no captured variables)
	saved := t.env
	t.env = []map[string]*ty{{}}
	var binders []string
	var pts []*ty
	for _, p := range ps {
		t.bind(p.name, p.t)
		binders = append(binders, "("+leanIdent(p.name)+" : "+p.t.lean()+")")
		pts = append(pts, p.t)
	}
	x := t.exprH(ret.Results[0], rt)
	t.env = saved
	if t.err != nil {
		b.WriteString(ind + "sorry\n")
		return
	}
	if x.p {
		t.stmtFail(b, ind, "function literal with an operation that can panic")
		return
	}
	if !x.t.eq(rt) {
		t.stmtFail(b, ind, "function literal returns %s, declared %s", x.t.lean(), rt.lean())
		return
	}
	if t.muts[name] {
		t.stmtFail(b, ind, "function variable %s is reassigned", name)
		return
	}
	fmt.Fprintf(b, "%slet %s := fun %s => %s\n", ind, leanIdent(name), strings.Join(binders, " "), x.s)
	t.bind(name, &ty{k: "func", params: pts, res: rt})
}

func (t *ftr) block(list []ast.Stmt, ind string, res *ty) string {
	s := t.block0(list, ind, res)
	// a block that produced only comments needs a statement
	for _, l := range strings.Split(s, "\n") {
		l = strings.TrimSpace(l)
		if l != "" && !strings.HasPrefix(l, "--") {
			return s
		}
	}
	return s + ind + "pure ()\n"
}

func (t *ftr) block0(list []ast.Stmt, ind string, res *ty) string {
	var b strings.Builder
	t.push()
	defer t.pop()
	for _, st := range list {
		if t.err != nil {
			break
		}
		if t.ioStmt(&b, ind, st, res) {
			continue
		}
		switch s := st.(type) {
		case *ast.AssignStmt:
			t.assign(&b, ind, s)
		case *ast.IncDecStmt:
			if ix, ok := s.X.(*ast.IndexExpr); ok && s.Tok == token.INC {
				if t.mapAssign(&b, ind, ix, token.INC, nil) {
					continue
				}
			}
			id, ok := s.X.(*ast.Ident)
			if !ok || t.lookup(id.Name) == nil || t.lookup(id.Name).k != "int" {
				t.stmtFail(&b, ind, "%s", t.src(s))
				continue
			}
			op := " + "
			if s.Tok == token.DEC {
				op = " - "
			}
			fmt.Fprintf(&b, "%s%s := %s%s(1 : Int)\n", ind, t.ln(id.Name), t.ln(id.Name), op)
		case *ast.IfStmt:
			b.WriteString(t.ifStmt(s, ind, res))
		case *ast.ReturnStmt:
			t.returnStmt(&b, ind, s)
		case *ast.ForStmt:
			b.WriteString(t.forStmt(s, ind, res))
		case *ast.RangeStmt:
			b.WriteString(t.rangeStmt(s, ind, res))
		case *ast.TypeSwitchStmt:
			b.WriteString(t.typeSwitch(s, ind, res))
		case *ast.SwitchStmt:
			b.WriteString(t.switchStmt(s, ind, res))
		case *ast.BranchStmt:
			if s.Label != nil || (s.Tok != token.BREAK && s.Tok != token.CONTINUE) {
				t.stmtFail(&b, ind, "unsupported statement %s", t.src(s))
				continue
			}
			fmt.Fprintf(&b, "%s%s\n", ind, s.Tok)
		default:
			t.stmtFail(&b, ind, "unsupported statement %T", st)
		}
	}
	return b.String()
}

// switchStmt: `switch tag { case c1: A; case c2, c3: B; default: D }` -> an if-chain (see the header
// comment for the side conditions; anything else is refused)
func (t *ftr) switchStmt(s *ast.SwitchStmt, ind string, res *ty) string {
	var b strings.Builder
	if s.Init != nil || s.Tag == nil {
		t.stmtFail(&b, ind, "switch with an init statement or without a tag")
		return b.String()
	}
	bad := ""
	ast.Inspect(s.Body, func(n ast.Node) bool {
		if br, ok := n.(*ast.BranchStmt); ok && (br.Tok != token.CONTINUE || br.Label != nil) {
			bad = t.src(br)
		}
		return true
	})
	if bad != "" {
		t.stmtFail(&b, ind, "`%s` inside a switch", bad)
		return b.String()
	}
	tag := t.expr(s.Tag)
	if t.err != nil {
		b.WriteString(ind + "sorry\n")
		return b.String()
	}
	if tag.p {
		t.stmtFail(&b, ind, "the switch tag %s can panic", t.src(s.Tag))
		return b.String()
	}
	switch tag.t.k {
	case "int", "text", "byte", "bool":
	default:
		t.stmtFail(&b, ind, "switch over a value of type %s", tag.t.lean())
		return b.String()
	}
	type clause struct {
		cond string
		body []ast.Stmt
	}
	var cases []clause
	var deflt *ast.CaseClause
	for _, c := range s.Body.List {
		cc, ok := c.(*ast.CaseClause)
		if !ok {
			t.stmtFail(&b, ind, "unsupported switch clause")
			return b.String()
		}
		if cc.List == nil {
			if deflt != nil {
				t.stmtFail(&b, ind, "switch with two default clauses")
				return b.String()
			}
			deflt = cc
			continue
		}
		var conds []string
		for _, ce := range cc.List {
			for n := range identsIn(ce) {
				if t.lookup(n) != nil {
					t.stmtFail(&b, ind, "the case operand %s is not a constant (it mentions the variable %s)", t.src(ce), n)
					return b.String()
				}
			}
			if _, isCall := ce.(*ast.CallExpr); isCall {
				t.stmtFail(&b, ind, "the case operand %s is not a constant", t.src(ce))
				return b.String()
			}
			x := t.exprH(ce, tag.t)
			if t.err != nil {
				b.WriteString(ind + "sorry\n")
				return b.String()
			}
			if !x.t.eq(tag.t) || x.p {
				t.stmtFail(&b, ind, "the case operand %s has type %s (tag: %s) or can panic", t.src(ce), x.t.lean(), tag.t.lean())
				return b.String()
			}
			conds = append(conds, "("+tag.s+" == "+x.s+")")
		}
		cond := conds[0]
		if len(conds) > 1 {
			cond = "(" + strings.Join(conds, " || ") + ")"
		}
		cases = append(cases, clause{cond, cc.Body})
	}
	if len(cases) == 0 {
		t.stmtFail(&b, ind, "switch without case clauses")
		return b.String()
	}
	var emit func(i int, ind string)
	emit = func(i int, ind string) {
		fmt.Fprintf(&b, "%sif %s then\n%s", ind, cases[i].cond, t.block(cases[i].body, ind+"  ", res))
		switch {
		case i+1 < len(cases):
			fmt.Fprintf(&b, "%selse\n", ind)
			emit(i+1, ind+"  ")
		case deflt != nil:
			fmt.Fprintf(&b, "%selse\n%s", ind, t.block(deflt.Body, ind+"  ", res))
		}
	}
	emit(0, ind)
	return b.String()
}

// isNewBuilder: &bytes.Buffer{} / &strings.Builder{}
func (t *ftr) isNewBuilder(e ast.Expr) bool {
	u, ok := e.(*ast.UnaryExpr)
	if !ok || u.Op != token.AND {
		return false
	}
	cl, ok := u.X.(*ast.CompositeLit)
	return ok && t.isBuilderType(cl.Type) && len(cl.Elts) == 0
}

// checkPtrBuilders: a local `a := &bytes.Buffer{}` is a POINTER; it is modelled by the content of the
// buffer it points to, which is only right while `a` is the only name of that buffer.  Every
// occurrence of such a variable must therefore be (i) its definition, (ii) the receiver of a method
// call `a.M(…)`, or (iii) an argument of a translated function in the position of an in-out writer
// parameter.  Anything else (y := a, a = b, f(a) with an unknown f, return a, …) is refused.
func (t *ftr) checkPtrBuilders(fd *ast.FuncDecl) {
	names := map[string]bool{}
	allowed := map[*ast.Ident]bool{}
	ast.Inspect(fd.Body, func(n ast.Node) bool {
		if as, ok := n.(*ast.AssignStmt); ok && as.Tok == token.DEFINE && len(as.Lhs) == 1 && len(as.Rhs) == 1 && t.isNewBuilder(as.Rhs[0]) {
			if id, ok := as.Lhs[0].(*ast.Ident); ok && id.Name != "_" {
				if names[id.Name] {
					t.fail("the buffer pointer %s is defined twice", id.Name)
				}
				names[id.Name] = true
				allowed[id] = true
			}
		}
		return true
	})
	if len(names) == 0 {
		return
	}
	ast.Inspect(fd.Body, func(n ast.Node) bool {
		c, ok := n.(*ast.CallExpr)
		if !ok {
			return true
		}
		if sel, ok := c.Fun.(*ast.SelectorExpr); ok {
			if id, ok := sel.X.(*ast.Ident); ok && names[id.Name] {
				allowed[id] = true
			}
		}
		var d *doneFn
		if id, ok := c.Fun.(*ast.Ident); ok {
			d = t.funcs[t.sp.pkg+"."+id.Name]
		} else if dd, _, ok := t.crossPkg(c.Fun); ok {
			d = dd
		}
		if d == nil || d.spec.recv != "" {
			return true
		}
		for i, a := range c.Args {
			id, ok := a.(*ast.Ident)
			if !ok || !names[id.Name] || i >= len(d.pnames) {
				continue
			}
			for _, io := range d.spec.inout {
				if io == d.pnames[i] {
					allowed[id] = true
				}
			}
		}
		return true
	})
	ast.Inspect(fd.Body, func(n ast.Node) bool {
		if id, ok := n.(*ast.Ident); ok && names[id.Name] && !allowed[id] {
			t.fail("the buffer pointer %s is used other than as a method receiver or as the writer argument of a translated function (aliasing is not modelled)", id.Name)
		}
		return true
	})
}

// typeSwitch: `switch j := x.(type) { case string: …; case []byte: …; default: … }` over a parameter of type
// GoIO.Dyn: a match on the constructor; j is the string / the bytes in the first two clauses and x itself in
// the default clause
func (t *ftr) typeSwitch(s *ast.TypeSwitchStmt, ind string, res *ty) string {
	var b strings.Builder
	var bound string
	var ta *ast.TypeAssertExpr
	switch a := s.Assign.(type) {
	case *ast.AssignStmt:
		if a.Tok == token.DEFINE && len(a.Lhs) == 1 && len(a.Rhs) == 1 {
			if id, ok := a.Lhs[0].(*ast.Ident); ok {
				bound = id.Name
				ta, _ = a.Rhs[0].(*ast.TypeAssertExpr)
			}
		}
	case *ast.ExprStmt:
		ta, _ = a.X.(*ast.TypeAssertExpr)
	}
	if s.Init != nil || ta == nil || ta.Type != nil {
		t.stmtFail(&b, ind, "unsupported type switch")
		return b.String()
	}
	xid, ok := ta.X.(*ast.Ident)
	if !ok || t.lookup(xid.Name) == nil || t.lookup(xid.Name).k != "dyn" {
		t.stmtFail(&b, ind, "type switch over %s, which is not a dynamically typed parameter", t.src(ta.X))
		return b.String()
	}
	fmt.Fprintf(&b, "%smatch %s with\n", ind, t.ln(xid.Name))
	seen := map[string]bool{}
	var deflt *ast.CaseClause
	for _, c := range s.Body.List {
		cc := c.(*ast.CaseClause)
		if cc.List == nil {
			deflt = cc
			continue
		}
		if len(cc.List) != 1 {
			t.stmtFail(&b, ind, "type switch clause with several types")
			return b.String()
		}
		ctor := map[string]string{"string": "str", "[]byte": "bytes"}[t.src(cc.List[0])]
		if ctor == "" || seen[ctor] {
			t.stmtFail(&b, ind, "type switch clause %s", t.src(cc.List[0]))
			return b.String()
		}
		seen[ctor] = true
		t.push()
		name := "_"
		if bound != "" {
			t.tmp++
			name = fmt.Sprintf("%s_%d", leanIdent(bound), t.tmp)
			t.bindAs(bound, name, tText)
		}
		fmt.Fprintf(&b, "%s| GoSnaps.GoIO.Dyn.%s %s =>\n%s", ind, ctor, name, t.block(cc.Body, ind+"  ", res))
		t.pop()
	}
	// the default clause takes every other dynamic type (and string / []byte when they have no clause)
	fmt.Fprintf(&b, "%s| _ =>\n", ind)
	if deflt == nil {
		fmt.Fprintf(&b, "%s  pure ()\n", ind)
		return b.String()
	}
	t.push()
	if bound != "" {
		t.bindAs(bound, t.ln(xid.Name), tDyn)
	}
	b.WriteString(t.block(deflt.Body, ind+"  ", res))
	t.pop()
	return b.String()
}

// retPrefix: the state every return carries in front of the Go results
func (t *ftr) retPrefix() []string {
	var pre []string
	if t.sp.fx == "rw" {
		pre = append(pre, "fs")
		if t.sp.prints {
			pre = append(pre, "stdout")
		}
	}
	if t.sp.fx == "st" {
		pre = append(pre, "st")
	}
	for _, n := range t.sp.inout {
		pre = append(pre, t.ln(n))
	}
	return pre
}

func tupleText(parts []string) string {
	switch len(parts) {
	case 0:
		return "()"
	case 1:
		return parts[0]
	}
	return "(" + strings.Join(parts, ", ") + ")"
}

func (t *ftr) returnStmt(b *strings.Builder, ind string, s *ast.ReturnStmt) {
	parts := t.retPrefix()
	// return f(x) with f effectful
	if len(s.Results) == 1 {
		if fr, ok := t.fxCall(s.Results[0]); ok {
			if fr == nil || t.err != nil {
				b.WriteString(ind + "sorry\n")
				return
			}
			x := t.emitFx(b, ind, fr)
			if !x.t.eq(nestedPair(t.rets)) {
				t.stmtFail(b, ind, "return type: %s", t.src(s))
				return
			}
			parts = t.retPrefix()
			fmt.Fprintf(b, "%sreturn %s\n", ind, tupleText(append(parts, x.s)))
			return
		}
	}
	if len(s.Results) == 1 && len(t.rets) > 1 {
		// return f(x) with f returning all the results
		x := t.exprMulti(s.Results[0], len(t.rets))
		if t.err != nil {
			b.WriteString(ind + "sorry\n")
			return
		}
		if !x.t.eq(nestedPair(t.rets)) {
			t.stmtFail(b, ind, "return types: %s", t.src(s))
			return
		}
		fmt.Fprintf(b, "%sreturn %s\n", ind, tupleText(append(parts, x.s)))
		return
	}
	if len(s.Results) != len(t.rets) {
		t.stmtFail(b, ind, "return arity: %s", t.src(s))
		return
	}
	for i, r := range s.Results {
		x := t.exprH(r, t.rets[i])
		if t.err != nil {
			b.WriteString(ind + "sorry\n")
			return
		}
		if !x.t.eq(t.rets[i]) {
			t.stmtFail(b, ind, "return types: %s", t.src(s))
			return
		}
		parts = append(parts, x.s)
	}
	fmt.Fprintf(b, "%sreturn %s\n", ind, tupleText(parts))
}

func (t *ftr) ifStmt(s *ast.IfStmt, ind string, res *ty) string {
	var b strings.Builder
	if s.Init != nil {
		// if x := e; cond { … }: x is visible in the condition and both branches only.  It is renamed
		// (x_k) so that it cannot capture a later use of an outer variable of the same name.
		as, ok := s.Init.(*ast.AssignStmt)
		if ok && as.Tok == token.ASSIGN && len(as.Rhs) == 1 {
			// if x = e; cond { … }: a plain assignment to an existing variable, then the `if`
			t.assign(&b, ind, as)
			if t.err != nil {
				return b.String()
			}
			s2 := *s
			s2.Init = nil
			return b.String() + t.ifStmt(&s2, ind, res)
		}
		if !ok || as.Tok != token.DEFINE || len(as.Rhs) != 1 {
			t.stmtFail(&b, ind, "if with an init statement other than `x := e`")
			return b.String()
		}
		t.push()
		defer t.pop()
		var x ex
		if fr, ok := t.fxCall(as.Rhs[0]); ok {
			if fr == nil || t.err != nil {
				b.WriteString(ind + "sorry\n")
				return b.String()
			}
			x = t.emitFx(&b, ind, fr)
		} else {
			x = t.exprMulti(as.Rhs[0], len(as.Lhs))
		}
		if t.err != nil {
			b.WriteString(ind + "sorry\n")
			return b.String()
		}
		n := len(as.Lhs)
		cts := comps(x.t, n)
		if cts == nil {
			t.stmtFail(&b, ind, "if-init: %d-value definition from %s", n, x.t.lean())
			return b.String()
		}
		val := x.s
		for i, l := range as.Lhs {
			id, ok := l.(*ast.Ident)
			if !ok {
				t.stmtFail(&b, ind, "if-init: definition of %s", t.src(l))
				return b.String()
			}
			if id.Name == "_" {
				continue
			}
			t.tmp++
			t.defineAs(&b, ind, id.Name, fmt.Sprintf("%s_%d", leanIdent(id.Name), t.tmp), ex{proj(val, i, n), cts[i], x.p})
		}
	}
	c := t.expr(s.Cond)
	if t.err == nil && c.t.k != "bool" {
		t.stmtFail(&b, ind, "condition of type %s", c.t.lean())
		return b.String()
	}
	fmt.Fprintf(&b, "%sif %s then\n%s", ind, c.s, t.block(s.Body.List, ind+"  ", res))
	switch e := s.Else.(type) {
	case nil:
	case *ast.BlockStmt:
		fmt.Fprintf(&b, "%selse\n%s", ind, t.block(e.List, ind+"  ", res))
	case *ast.IfStmt:
		fmt.Fprintf(&b, "%selse\n%s", ind, t.block([]ast.Stmt{e}, ind+"  ", res))
	default:
		t.stmtFail(&b, ind, "unsupported else")
	}
	return b.String()
}

// for i := lo; i < hi; i++ { body }
func (t *ftr) forStmt(s *ast.ForStmt, ind string, res *ty) string {
	var b strings.Builder
	if s.Cond == nil && s.Init != nil && s.Post != nil {
		// for i := lo; ; i++ { body }: left only by return/break.  The translation runs at most `fuel`
		// iterations (an explicit parameter of the function); running out of fuel is `none`, and the tie
		// theorem shows that a fuel exceeding the size of the input is never exhausted.
		init, ok1 := s.Init.(*ast.AssignStmt)
		post, ok3 := s.Post.(*ast.IncDecStmt)
		if ok1 && ok3 && init.Tok == token.DEFINE && len(init.Lhs) == 1 && len(init.Rhs) == 1 && post.Tok == token.INC && t.hasExtra("fuel") {
			iv, okA := init.Lhs[0].(*ast.Ident)
			pv, okC := post.X.(*ast.Ident)
			whole, _ := assignedIn(s.Body)
			if okA && okC && iv.Name == pv.Name && !whole[iv.Name] {
				lo := t.exprH(init.Rhs[0], tInt)
				if t.err == nil && lo.t.k == "int" && !lo.p {
					t.partial = true
					fmt.Fprintf(&b, "%sfor %s in GoSnaps.GoSem.intRange %s (%s + (fuel : Int)) do\n", ind, leanIdent(iv.Name), lo.s, lo.s)
					t.push()
					t.bind(iv.Name, tInt)
					b.WriteString(t.block(s.Body.List, ind+"  ", res))
					t.pop()
					fmt.Fprintf(&b, "%snone  -- out of fuel\n", ind)
					return b.String()
				}
			}
		}
		t.stmtFail(&b, ind, "unsupported unbounded loop")
		return b.String()
	}
	init, ok1 := s.Init.(*ast.AssignStmt)
	cond, ok2 := s.Cond.(*ast.BinaryExpr)
	post, ok3 := s.Post.(*ast.IncDecStmt)
	if !ok1 || !ok2 || !ok3 || init.Tok != token.DEFINE || len(init.Lhs) != 1 || len(init.Rhs) != 1 ||
		(cond.Op != token.LSS && cond.Op != token.LEQ) || post.Tok != token.INC {
		t.stmtFail(&b, ind, "for loop is not of the form `for i := lo; i < hi; i++`")
		return b.String()
	}
	iv, okA := init.Lhs[0].(*ast.Ident)
	cv, okB := cond.X.(*ast.Ident)
	pv, okC := post.X.(*ast.Ident)
	if !okA || !okB || !okC || iv.Name != cv.Name || iv.Name != pv.Name || iv.Name == "_" {
		t.stmtFail(&b, ind, "for loop is not of the form `for i := lo; i < hi; i++`")
		return b.String()
	}
	whole, indexed := assignedIn(s.Body)
	if whole[iv.Name] || whole["?"] {
		t.stmtFail(&b, ind, "the loop body assigns the loop variable %s", iv.Name)
		return b.String()
	}
	for n := range identsIn(cond.Y) {
		if whole[n] || indexed[n] {
			t.stmtFail(&b, ind, "the loop body assigns %s, which occurs in the loop bound", n)
			return b.String()
		}
	}
	lo := t.exprH(init.Rhs[0], tInt)
	hi := t.exprH(cond.Y, tInt)
	if t.err == nil && (lo.t.k != "int" || hi.t.k != "int") {
		t.stmtFail(&b, ind, "loop bounds are not int")
		return b.String()
	}
	his := hi.s
	if cond.Op == token.LEQ {
		// i <= hi: one more iteration (no overflow: hi is a snapshot count)
		his = "(" + hi.s + " + (1 : Int))"
	}
	fmt.Fprintf(&b, "%sfor %s in GoSnaps.GoSem.intRange %s %s do\n", ind, leanIdent(iv.Name), lo.s, his)
	t.push()
	t.bind(iv.Name, tInt)
	b.WriteString(t.block(s.Body.List, ind+"  ", res))
	t.pop()
	return b.String()
}

func (t *ftr) rangeStmt(s *ast.RangeStmt, ind string, res *ty) string {
	var b strings.Builder
	if s.Tok != token.DEFINE {
		t.stmtFail(&b, ind, "range without :=")
		return b.String()
	}
	name := func(e ast.Expr) (string, bool) {
		if e == nil {
			return "_", true
		}
		id, ok := e.(*ast.Ident)
		if !ok {
			return "", false
		}
		return id.Name, true
	}
	k, ok1 := name(s.Key)
	v, ok2 := name(s.Value)
	if !ok1 || !ok2 {
		t.stmtFail(&b, ind, "range variables")
		return b.String()
	}
	xs := t.expr(s.X)
	if t.err != nil {
		b.WriteString(ind + "sorry\n")
		return b.String()
	}
	if xs.t.k == "map1" {
		return t.rangeMap1(s, xs, k, v, ind, res)
	}
	if (xs.t.k == "map2" || xs.t.k == "set") && v == "_" && k != "_" {
		// for key := range m: the keys, in list order (Go's order is unspecified)
		keys := xs.s
		if xs.t.k == "map2" {
			keys = "(" + xs.s + ".map (·.1))"
		}
		whole, _ := assignedIn(s.Body)
		if whole[k] {
			t.stmtFail(&b, ind, "the loop body assigns the range key")
			return b.String()
		}
		lk := leanIdent(k)
		if t.lookup(k) != nil {
			t.tmp++
			lk = fmt.Sprintf("%s_%d", leanIdent(k), t.tmp)
		}
		fmt.Fprintf(&b, "%sfor %s in %s do\n", ind, lk, keys)
		t.push()
		t.bind(k, tText)
		if lk != leanIdent(k) {
			t.ren[len(t.ren)-1][k] = lk
		}
		b.WriteString(t.block(s.Body.List, ind+"  ", res))
		t.pop()
		return b.String()
	}
	if xs.t.k != "texts" && xs.t.k != "merrs" && xs.t.k != "matchers" && xs.t.k != "dirents" && xs.t.k != "godecls" && xs.t.k != "cfgopts" && xs.t.k != "opcodes" && xs.t.k != "opgroups" && xs.t.k != "chunks" {
		t.stmtFail(&b, ind, "range over %s (only []string is supported; a string ranges over runes)", xs.t.lean())
		return b.String()
	}
	elemT := map[string]*ty{"texts": tText, "merrs": tMErr, "matchers": tMatch, "dirents": tDirE, "godecls": tDecl,
		"cfgopts": {k: "func", params: []*ty{tCfg}, res: tCfg}, "opcodes": tOp, "opgroups": tOps, "chunks": tChunk}[xs.t.k]
	whole, indexed := assignedIn(s.Body)
	if whole["?"] || (k != "_" && whole[k]) {
		t.stmtFail(&b, ind, "the loop body assigns the range index")
		return b.String()
	}
	sliceName := ""
	if id, ok := s.X.(*ast.Ident); ok {
		sliceName = id.Name
		if whole[sliceName] {
			t.stmtFail(&b, ind, "the loop body reassigns the ranged slice %s", sliceName)
			return b.String()
		}
		if indexed[sliceName] && k == "_" {
			t.stmtFail(&b, ind, "the loop body modifies the ranged slice %s without a loop index", sliceName)
			return b.String()
		}
	} else {
		for n := range identsIn(s.X) {
			if indexed[n] {
				t.stmtFail(&b, ind, "the loop body modifies %s, which occurs in the range expression", n)
				return b.String()
			}
		}
	}
	fresh := func(n string) string {
		if n != "_" && t.lookup(n) != nil {
			t.tmp++
			return fmt.Sprintf("%s_%d", leanIdent(n), t.tmp)
		}
		return leanIdent(n)
	}
	lk, lv := fresh(k), fresh(v)
	switch {
	case k == "_" && v == "_":
		t.stmtFail(&b, ind, "range without variables")
		return b.String()
	case k == "_":
		fmt.Fprintf(&b, "%sfor %s in %s do\n", ind, lv, xs.s)
	case v == "_":
		fmt.Fprintf(&b, "%sfor %s in GoSnaps.GoSem.intRange (0 : Int) (GoSnaps.GoSem.len %s) do\n", ind, lk, xs.s)
	default:
		fmt.Fprintf(&b, "%sfor (%s, %s) in GoSnaps.GoSem.enum %s do\n", ind, lk, lv, xs.s)
	}
	t.push()
	if k != "_" {
		t.bind(k, tInt)
		if lk != leanIdent(k) {
			t.ren[len(t.ren)-1][k] = lk
		}
	}
	if v != "_" {
		t.bind(v, elemT)
		if lv != leanIdent(v) {
			t.ren[len(t.ren)-1][v] = lv
		}
		if whole[v] {
			// the body assigns the value variable (a per-iteration copy in Go)
			t.tmp++
			mv := fmt.Sprintf("%s_%d", leanIdent(v), t.tmp)
			fmt.Fprintf(&b, "%s  let mut %s := %s\n", ind, mv, lv)
			t.ren[len(t.ren)-1][v] = mv
		}
	}
	t.loops = append(t.loops, loopCtx{sliceName, k})
	b.WriteString(t.block(s.Body.List, ind+"  ", res))
	t.loops = t.loops[:len(t.loops)-1]
	t.pop()
	return b.String()
}

// aliasing discipline for index-assigned slices (see the header comment)
// mapLike: names of the function that denote maps / sets (index assignment on them is a map store,
// not a slice store: Go maps are reference values, but the translated functions never copy one)
func mapLike(fd *ast.FuncDecl) map[string]bool {
	out := map[string]bool{}
	isMapT := func(e ast.Expr) bool {
		if _, ok := e.(*ast.MapType); ok {
			return true
		}
		id, ok := e.(*ast.Ident)
		return ok && id.Name == "set"
	}
	for _, f := range fd.Type.Params.List {
		if isMapT(f.Type) {
			for _, n := range f.Names {
				out[n.Name] = true
			}
		}
	}
	ast.Inspect(fd.Body, func(n ast.Node) bool {
		as, ok := n.(*ast.AssignStmt)
		if !ok || as.Tok != token.DEFINE || len(as.Lhs) != 1 || len(as.Rhs) != 1 {
			return true
		}
		id, ok := as.Lhs[0].(*ast.Ident)
		if !ok {
			return true
		}
		switch r := as.Rhs[0].(type) {
		case *ast.CompositeLit:
			if isMapT(r.Type) {
				out[id.Name] = true
			}
		case *ast.CallExpr:
			if selName(r.Fun) == "make" && len(r.Args) >= 1 && isMapT(r.Args[0]) {
				out[id.Name] = true
			}
			if selName(r.Fun) == "occurrences" {
				out[id.Name] = true
			}
		}
		return true
	})
	return out
}

func (t *ftr) checkAliasing(fd *ast.FuncDecl, params map[string]bool) {
	_, indexed := assignedIn(fd.Body)
	for n := range mapLike(fd) {
		delete(indexed, n)
	}
	for n := range indexed {
		if params[n] {
			t.fail("index assignment to the parameter %s (the effect on the caller's slice is not modelled)", n)
		}
	}
	ast.Inspect(fd.Body, func(nd ast.Node) bool {
		as, ok := nd.(*ast.AssignStmt)
		if !ok {
			return true
		}
		for i, r := range as.Rhs {
			base := r
			if se, ok := base.(*ast.SliceExpr); ok {
				base = se.X
			}
			if pe, ok := base.(*ast.ParenExpr); ok {
				base = pe.X
			}
			if id, ok := base.(*ast.Ident); ok && indexed[id.Name] {
				t.fail("the index-assigned slice %s is copied (aliasing is not modelled)", id.Name)
			}
			if i < len(as.Lhs) {
				if id, ok := as.Lhs[i].(*ast.Ident); ok && indexed[id.Name] {
					if _, isCall := r.(*ast.CallExpr); !isCall {
						t.fail("the index-assigned slice %s is not defined from a call", id.Name)
					}
				}
			}
		}
		return true
	})
}

func sigText(t *ftr, fd *ast.FuncDecl) string {
	var ps, rs []string
	for _, f := range fd.Type.Params.List {
		for _, n := range f.Names {
			ps = append(ps, n.Name+":"+t.src(f.Type))
		}
	}
	if fd.Type.Results != nil {
		for _, f := range fd.Type.Results.List {
			if len(f.Names) > 0 {
				rs = append(rs, "named")
			}
			rs = append(rs, t.src(f.Type))
		}
	}
	return strings.Join(ps, ",") + "->" + strings.Join(rs, ",")
}

func translateFunc(pkg *pkgInfo, sp *funcSpec, consts map[string]bool, funcs map[string]*doneFn) *doneFn {
	fd := pkg.fn(sp.name)
	t := &ftr{pkg: pkg, consts: consts, muts: map[string]bool{}, sp: sp, funcs: funcs, builder: map[string]bool{}}
	if fd.Type.TypeParams != nil || (fd.Recv != nil) != (sp.recv != "") {
		ffail("funcs: %s: receiver / type parameters do not match the specification", sp.name)
	}
	if got := sigText(t, fd); got != sp.sig {
		ffail("funcs: %s signature changed: %s (expected %s)", sp.name, got, sp.sig)
	}
	t.push()
	var binders []string
	if sp.fx == "st" {
		binders = append(binders, "(io : GoSnaps.GoIO.IOFail)", "(st : GoSnaps.GoIO.St)")
	} else if sp.fx != "" {
		binders = append(binders, "(io : GoSnaps.GoIO.IOFail)", "(fs : GoSnaps.FS)")
		if sp.prints {
			binders = append(binders, "(stdout : List UInt8)")
		}
	}
	for _, p := range sp.extra {
		binders = append(binders, "("+p.name+" : "+p.t.lean()+")")
	}
	isInout := map[string]bool{}
	for _, n := range sp.inout {
		isInout[n] = true
	}
	var pts []*ty
	var pns []string
	anyP := map[int]bool{}
	pnames := map[string]bool{}
	if sp.recv != "" {
		// the receiver is the first, in-out parameter
		parts := strings.SplitN(sp.recv, ":", 2)
		rt := map[string]*ty{"registry": tReg, "sregistry": tSReg, "anym": tAnyM, "typem": tTypeM, "custm": tCustM, "cfg": tCfg, "jcfgopt": tJCfgO}[parts[1]]
		if rt == nil || len(fd.Recv.List) != 1 || len(fd.Recv.List[0].Names) != 1 || fd.Recv.List[0].Names[0].Name != parts[0] {
			ffail("funcs: %s: receiver does not match %s", sp.name, sp.recv)
		}
		_, isPtr := fd.Recv.List[0].Type.(*ast.StarExpr)
		isMatcher := rt.k == "anym" || rt.k == "typem" || rt.k == "custm" || rt.k == "cfg" || rt.k == "jcfgopt"
		// does the method assign a field of its receiver?
		mutates := false
		ast.Inspect(fd.Body, func(n ast.Node) bool {
			if as, ok := n.(*ast.AssignStmt); ok {
				for _, l := range as.Lhs {
					if sel, ok := l.(*ast.SelectorExpr); ok {
						if id, ok := sel.X.(*ast.Ident); ok && id.Name == parts[0] {
							mutates = true
						}
					}
				}
			}
			return true
		})
		if !isPtr && (!isMatcher || mutates) {
			ffail("funcs: %s: value receiver (the method cannot change its receiver)", sp.name)
		}
		if rt.k == "jcfgopt" && !pkg.structIs("JSONConfig", "Width:int,Indent:string,SortKeys:bool") {
			ffail("funcs: %s: the struct JSONConfig changed", sp.name)
		}
		if isMatcher && rt.k != "cfg" && rt.k != "jcfgopt" && !pkg.structIs(map[string]string{"anym": "anyMatcher", "typem": "typeMatcher", "custm": "customMatcher"}[rt.k],
			map[string]string{"anym": "paths:[],placeholder:any,errOnMissingPath:bool,name:string",
				"typem": "paths:[],errOnMissingPath:bool,name:string,expectedType:any",
				"custm": "callback:,errOnMissingPath:bool,name:string,path:string"}[rt.k]) {
			ffail("funcs: %s: the receiver's struct type changed", sp.name)
		}
		t.bind(parts[0], rt)
		pnames[parts[0]] = true
		pts = append(pts, rt)
		pns = append(pns, parts[0])
		binders = append(binders, "("+leanIdent(parts[0])+" : "+rt.lean()+")")
		if (!isMatcher || mutates) && !isInout[parts[0]] {
			sp.inout = append([]string{parts[0]}, sp.inout...)
			isInout[parts[0]] = true
		}
	}
	for _, f := range fd.Type.Params.List {
		pt := goType(f.Type)
		if pt == nil {
			ffail("funcs: %s: unsupported parameter type %s", sp.name, t.src(f.Type))
		}
		for _, n := range f.Names {
			pt := pt
			if o := sp.ptypes[n.Name]; o != nil {
				pt = o
			}
			if s := t.src(f.Type); (s == "any" || s == "interface{}") && pt.k == "text" {
				anyP[len(pts)] = true
			}
			if (pt.k == "scanner" || pt.k == "file") && !isInout[n.Name] {
				ffail("funcs: %s: the pointer parameter %s must be declared in-out", sp.name, n.Name)
			}
			t.bind(n.Name, pt)
			pnames[n.Name] = true
			pts = append(pts, pt)
			pns = append(pns, n.Name)
			binders = append(binders, "("+leanIdent(n.Name)+" : "+pt.lean()+")")
		}
	}
	for _, n := range sp.inout {
		if !pnames[n] {
			ffail("funcs: %s has no parameter %s", sp.name, n)
		}
		if t.lookup(n).k == "text" {
			t.builder[n] = true // an io.Writer parameter
		}
	}
	for _, pt := range pts {
		if pt.k == "bools" && !pkg.structIs("CleanOpts", "Sort:bool") {
			ffail("funcs: %s: CleanOpts is no longer a struct with the single field Sort bool", sp.name)
		}
	}
	var rts []*ty
	var namedRes []param
	if fd.Type.Results != nil {
		for _, f := range fd.Type.Results.List {
			rt := goType(f.Type)
			if rt == nil {
				ffail("funcs: %s: unsupported result type %s", sp.name, t.src(f.Type))
			}
			if len(f.Names) == 0 {
				rts = append(rts, rt)
			}
			for _, n := range f.Names {
				// a named result is a local variable that starts at its zero value; every return of the
				// translated functions names its operands explicitly (a bare `return` is rejected)
				rts = append(rts, rt)
				namedRes = append(namedRes, param{n.Name, rt})
			}
		}
	}
	t.rets = rts
	var all []*ty
	if sp.fx == "rw" {
		all = append(all, &ty{k: "fs"})
		if sp.prints {
			all = append(all, tText)
		}
	}
	if sp.fx == "st" {
		all = append(all, tSt)
	}
	for _, n := range sp.inout {
		all = append(all, t.lookup(n))
	}
	all = append(all, rts...)
	if len(all) == 0 {
		ffail("funcs: %s has neither results nor state to return", sp.name)
	}
	res := nestedPair(all)
	whole, indexed := assignedIn(fd.Body)
	for n := range indexed {
		t.muts[n] = true
	}
	// a variable is `let mut` when it is assigned other than by its defining `:=`
	ast.Inspect(fd.Body, func(n ast.Node) bool {
		switch s := n.(type) {
		case *ast.AssignStmt:
			if s.Tok != token.DEFINE {
				for _, l := range s.Lhs {
					if id, ok := l.(*ast.Ident); ok {
						t.muts[id.Name] = true
					}
					// x.f = v on a struct value: the variable is rebuilt
					if sel, ok := l.(*ast.SelectorExpr); ok {
						if id, ok := sel.X.(*ast.Ident); ok {
							t.muts[id.Name] = true
						}
					}
				}
			} else {
				// `a, err := f()` re-assigns an `err` that already exists in the same scope; to stay on the
				// safe side every name defined more than once in the function is mutable
				for _, l := range s.Lhs {
					if id, ok := l.(*ast.Ident); ok && whole[id.Name+"#2"] {
						t.muts[id.Name] = true
					}
				}
			}
		case *ast.IncDecStmt:
			if id, ok := s.X.(*ast.Ident); ok {
				t.muts[id.Name] = true
			}
		case *ast.CallExpr:
			// f(&x): the callee may change x
			for _, a := range s.Args {
				if u, ok := a.(*ast.UnaryExpr); ok && u.Op == token.AND {
					if id, ok := u.X.(*ast.Ident); ok {
						if _, isOpt := s.Fun.(*ast.Ident); isOpt && len(s.Args) == 1 {
							t.muts[id.Name] = true
						}
					}
				}
			}
			// yaml.Update(f, …) rewrites the parsed file f in place
			if selName(s.Fun) == "yaml.Update" && len(s.Args) > 0 {
				if id, ok := s.Args[0].(*ast.Ident); ok {
					t.muts[id.Name] = true
				}
			}
		}
		return true
	})
	var assignedParams []string
	for _, n := range pns {
		if t.muts[n] && !isInout[n] {
			// Go parameters are local variables: an assigned one becomes `let mut p := p`
			if k := t.lookup(n).k; k == "file" || k == "scanner" || k == "registry" || k == "sregistry" {
				ffail("funcs: %s assigns its pointer parameter %s", sp.name, n)
			}
			assignedParams = append(assignedParams, n)
		}
	}
	t.checkAliasing(fd, pnames)
	t.checkPtrBuilders(fd)
	n := len(fd.Body.List)
	if n == 0 {
		ffail("funcs: %s has an empty body", sp.name)
	}
	_, endsInReturn := fd.Body.List[n-1].(*ast.ReturnStmt)
	if fs, ok := fd.Body.List[n-1].(*ast.ForStmt); ok && fs.Cond == nil {
		endsInReturn = true // an unbounded loop: control never falls out of it
	}
	if ts, ok := fd.Body.List[n-1].(*ast.TypeSwitchStmt); ok {
		// a type switch with a default clause, every clause ending in a return
		all, hasDefault := true, false
		for _, c := range ts.Body.List {
			cc := c.(*ast.CaseClause)
			if cc.List == nil {
				hasDefault = true
			}
			if len(cc.Body) == 0 {
				all = false
			} else if _, ok := cc.Body[len(cc.Body)-1].(*ast.ReturnStmt); !ok {
				all = false
			}
		}
		endsInReturn = all && hasDefault
	}
	if len(rts) > 0 && !endsInReturn {
		// every path of a Go function with results ends in a return
		ffail("funcs: %s does not end with a return statement", sp.name)
	}
	var pre strings.Builder
	if sp.fx == "rw" {
		pre.WriteString("  let mut fs := fs\n")
		if sp.prints {
			pre.WriteString("  let mut stdout := stdout\n")
		}
	}
	if sp.fx == "st" {
		pre.WriteString("  let mut st := st\n")
	}
	for _, nm := range assignedParams {
		fmt.Fprintf(&pre, "  let mut %s := %s\n", leanIdent(nm), leanIdent(nm))
	}
	for _, nr := range namedRes {
		zero := map[string]string{"texts": "([] : List (List UInt8))", "text": "([] : List UInt8)", "int": "(0 : Int)", "bool": "false", "err": "GoSnaps.GoIO.Err.nil"}[nr.t.k]
		if zero == "" {
			ffail("funcs: %s: named result %s of type %s", sp.name, nr.name, nr.t.lean())
		}
		fmt.Fprintf(&pre, "  let mut %s := %s\n", leanIdent(nr.name), zero)
		t.bind(nr.name, nr.t)
	}
	for _, nm := range sp.inout {
		fmt.Fprintf(&pre, "  let mut %s := %s\n", leanIdent(nm), leanIdent(nm))
	}
	body := pre.String() + t.block(fd.Body.List, "  ", res)
	if len(rts) == 0 && !endsInReturn {
		body += "  return " + tupleText(t.retPrefix()) + "\n"
	}
	if t.err != nil {
		ffail("funcs: %s uses a construct outside the translated subset: %v", sp.name, t.err)
	}
	var b strings.Builder
	pos := pkg.fset.Position(fd.Pos())
	fmt.Fprintf(&b, "-- %s (%s/%s)\n", sp.name, sp.pkg, pos.Filename[strings.LastIndex(pos.Filename, "/")+1:])
	if t.partial {
		rl := res.lean()
		if strings.Contains(rl, " ") && !strings.HasPrefix(rl, "(") {
			rl = "(" + rl + ")"
		}
		fmt.Fprintf(&b, "def %s %s : Option %s := do\n", leanDefName(sp.name), strings.Join(binders, " "), rl)
	} else {
		fmt.Fprintf(&b, "def %s %s : %s := Id.run do\n", leanDefName(sp.name), strings.Join(binders, " "), res.lean())
	}
	b.WriteString(body)
	return &doneFn{spec: sp, params: pts, pnames: pns, anyP: anyP, res: res, rets: rts, partial: t.partial, text: b.String()}
}

var matcherFieldTypes = map[string]*ty{"paths": tTexts, "placeholder": tText, "errOnMissingPath": tBool, "name": tText, "expectedType": tText, "path": tText}

func leanDefName(n string) string { return strings.ReplaceAll(n, ".", "_") }

// funcsErr: a function of the list could not be transliterated.  The failure is LOCAL: the function
// is left out of Funcs.lean (so exactly the `*_tied` theorems about it stop compiling) and the reason
// is recorded in facts.json; the other functions are still generated.
type funcsErr string

func ffail(f string, a ...any) {
	panic(funcsErr(fmt.Sprintf(f, a...)))
}

func tryTranslate(pkg *pkgInfo, sp *funcSpec, consts map[string]bool, funcs map[string]*doneFn) (d *doneFn, reason string) {
	defer func() {
		if r := recover(); r != nil {
			if fe, ok := r.(funcsErr); ok {
				d, reason = nil, string(fe)
				return
			}
			panic(r)
		}
	}()
	if _, ok := pkg.funcs[sp.name]; !ok {
		return nil, "function " + sp.name + " not found in package " + sp.pkg
	}
	return translateFunc(pkg, sp, consts, funcs), ""
}

var allPkgs map[string]*pkgInfo

func extractFuncs(pkgs map[string]*pkgInfo, F *facts) (string, string) {
	allPkgs = pkgs
	snaps := pkgs["snaps"]
	consts := map[string]bool{}
	for name, v := range snaps.values {
		if _, ok := snaps.constString(v); ok {
			consts[name] = true
		}
	}
	funcs := map[string]*doneFn{}
	var b, bio strings.Builder
	b.WriteString("-- GENERATED by tools/extract (funcs.go): statement-by-statement transliteration of Go functions into Lean\n")
	b.WriteString("-- do-notation.  `Id.run do` = total function; `Option … := do` = `none` when the Go function panics.\n")
	b.WriteString("-- Do not edit: regenerated from the current sources on every run.\n")
	b.WriteString("import GoSnaps.Path\nimport GoSnaps.GoSem\nset_option linter.unusedVariables false\nnamespace GoSnaps.Generated.Funcs\n")
	bio.WriteString("-- GENERATED by tools/extract (funcs.go, funcsio.go): transliteration of the effectful Go functions\n")
	bio.WriteString("-- (file system, scanners, registries, Match* flows); run-time semantics: GoSnaps/GoIO.lean.\n")
	bio.WriteString("-- Do not edit: regenerated from the current sources on every run.\n")
	bio.WriteString("import GoSnaps.GoIO\nimport GoSnaps.Natural\nimport GoSnaps.Generated.Funcs\nset_option linter.unusedVariables false\nnamespace GoSnaps.Generated.FuncsIO\n")
	F.Funcs = map[string]string{}
	F.FuncsFailed = map[string]string{}
	for i := range funcSpecs {
		sp := &funcSpecs[i]
		pkg := pkgs[sp.pkg]
		c := consts
		if sp.pkg != "snaps" {
			c = map[string]bool{}
		}
		out := &b
		if sp.out == "IO" {
			out = &bio
		}
		d, reason := tryTranslate(pkg, sp, c, funcs)
		if d == nil {
			fmt.Fprintf(os.Stderr, "extract: %s NOT transliterated: %s\n", sp.name, reason)
			out.WriteString("\n-- NOT TRANSLITERATED: " + sp.name + ": " + strings.ReplaceAll(reason, "\n", " ") + "\n")
			F.FuncsFailed[sp.name] = reason
			continue
		}
		funcs[sp.pkg+"."+sp.name] = d
		out.WriteString("\n" + d.text)
		F.Funcs[sp.name] = d.text
	}
	b.WriteString("\nend GoSnaps.Generated.Funcs\n")
	bio.WriteString("\nend GoSnaps.Generated.FuncsIO\n")
	return b.String(), bio.String()
}
