package main

// difflibstmt.go: statements of the difflib transliteration (see difflibgen.go for the subset).
import (
	"fmt"
	"go/ast"
	"go/token"
	"strings"
)

func (t *dtr) block(list []ast.Stmt, ind string) string {
	t.push()
	defer t.pop()
	var b strings.Builder
	for i, s := range list {
		b.WriteString(t.stmt(s, ind, list[i+1:]))
	}
	if b.Len() == 0 {
		b.WriteString(ind + "pure ()\n")
	}
	return b.String()
}

func (t *dtr) letKw(goName string) string {
	if t.mutNames[goName] {
		return "let mut"
	}
	return "let"
}

// a statement-level call of a method that changes the receiver: `m.f(args)`, `x := m.f(args)`, `return m.f(args)`
// returns the Lean expression of the call (whose value is `m` or `(m, result)`), and the callee
func (t *dtr) mutCall(e ast.Expr) (string, *dDone) {
	ce, ok := e.(*ast.CallExpr)
	if !ok {
		return "", nil
	}
	se, ok := ce.Fun.(*ast.SelectorExpr)
	if !ok || !t.isRecv(se.X) {
		return "", nil
	}
	d := t.c.done["sequenceMatcher."+se.Sel.Name]
	if d == nil {
		dfail("call of the untranslated method %s", se.Sel.Name)
	}
	if !d.mutates {
		return "", nil
	}
	if t.inClos != nil {
		dfail("the closure calls %s, which changes the captured receiver", se.Sel.Name)
	}
	a, _ := t.args(se.Sel.Name, ce.Args, d.params)
	a = append([]string{t.lookup(t.recv).lean}, a...)
	if d.fuel {
		t.fuel = true
		a = append([]string{"fuel"}, a...)
	}
	return t.wrapCall(d.lean, d.partial, a), d
}

func mentions(n ast.Node, name string) bool {
	found := false
	ast.Inspect(n, func(n ast.Node) bool {
		if id, ok := n.(*ast.Ident); ok && id.Name == name {
			found = true
		}
		return true
	})
	return found
}

func (t *dtr) stmt(s ast.Stmt, ind string, rest []ast.Stmt) string {
	var b strings.Builder
	switch s := s.(type) {
	case *ast.ExprStmt:
		if call, d := t.mutCall(s.X); d != nil {
			m := t.lookup(t.recv).lean
			if d.result == nil {
				fmt.Fprintf(&b, "%s%s := %s\n", ind, m, call)
			} else {
				fmt.Fprintf(&b, "%s%s := %s.1\n", ind, m, call)
			}
			return b.String()
		}
		if ce, ok := s.X.(*ast.CallExpr); ok && selName(ce.Fun) == "delete" && len(ce.Args) == 2 {
			id, ok := ce.Args[0].(*ast.Ident)
			v := (*dvar)(nil)
			if ok {
				v = t.lookup(id.Name)
			}
			if v == nil || !v.t.isMap() {
				dfail("delete on %s", t.src(ce.Args[0]))
			}
			kt, _ := v.t.mapKV()
			k := t.exprH(ce.Args[1], kt)
			if !k.t.same(kt) {
				dfail("delete: key type")
			}
			fmt.Fprintf(&b, "%s%s := %smapDel %s %s\n", ind, v.lean, dRT, v.lean, k.s)
			return b.String()
		}
		dfail("unsupported statement %s", t.src(s))
	case *ast.DeclStmt:
		return t.declStmt(s, ind)
	case *ast.AssignStmt:
		return t.assign(s, ind, rest)
	case *ast.IncDecStmt:
		id, ok := s.X.(*ast.Ident)
		v := (*dvar)(nil)
		if ok {
			v = t.lookup(id.Name)
		}
		if v == nil || v.t.k != "int" {
			dfail("unsupported statement %s", t.src(s))
		}
		op := "+"
		if s.Tok == token.DEC {
			op = "-"
		}
		fmt.Fprintf(&b, "%s%s := %s %s (1 : Int)\n", ind, v.lean, v.lean, op)
		return b.String()
	case *ast.IfStmt:
		return t.ifStmt(s, ind)
	case *ast.ForStmt:
		return t.forStmt(s, ind)
	case *ast.RangeStmt:
		return t.rangeStmt(s, ind)
	case *ast.ReturnStmt:
		if t.whileDep > 0 {
			dfail("return inside a `for cond` loop")
		}
		if t.result == nil {
			if len(s.Results) != 0 {
				dfail("return with a value in a function without results")
			}
			fmt.Fprintf(&b, "%sreturn %s\n", ind, t.lookup(t.recv).lean)
			return b.String()
		}
		if len(s.Results) != 1 {
			dfail("return with %d values", len(s.Results))
		}
		r := s.Results[0]
		// return &m (NewMatcher): the value of the local matcher
		if u, ok := r.(*ast.UnaryExpr); ok && u.Op == token.AND && t.result == dMatcher && t.key == "NewMatcher" && t.isRecv(u.X) {
			fmt.Fprintf(&b, "%sreturn %s\n", ind, t.lookup(t.recv).lean)
			return b.String()
		}
		x := t.exprH(r, t.result)
		if !x.t.same(t.result) {
			dfail("return of a %s", x.t.lean)
		}
		if t.mutates && !t.consumes && t.inClos == nil {
			fmt.Fprintf(&b, "%sreturn (%s, %s)\n", ind, t.lookup(t.recv).lean, x.s)
		} else {
			fmt.Fprintf(&b, "%sreturn %s\n", ind, x.s)
		}
		return b.String()
	case *ast.BranchStmt:
		if s.Label != nil || (s.Tok != token.BREAK && s.Tok != token.CONTINUE) {
			dfail("unsupported statement %s", t.src(s))
		}
		if t.whileDep > 0 {
			dfail("%s inside a `for cond` loop", s.Tok)
		}
		fmt.Fprintf(&b, "%s%s\n", ind, s.Tok.String())
		return b.String()
	case *ast.BlockStmt:
		return t.block(s.List, ind)
	}
	dfail("unsupported statement %s", t.src(s))
	return ""
}

func (t *dtr) declStmt(s *ast.DeclStmt, ind string) string {
	g, ok := s.Decl.(*ast.GenDecl)
	if !ok || g.Tok != token.VAR || len(g.Specs) != 1 {
		dfail("unsupported declaration %s", t.src(s))
	}
	vs := g.Specs[0].(*ast.ValueSpec)
	if len(vs.Names) != 1 || vs.Type == nil {
		dfail("unsupported declaration %s", t.src(s))
	}
	name := vs.Names[0].Name
	if ft, ok := vs.Type.(*ast.FuncType); ok {
		if len(vs.Values) != 0 || t.inClos != nil || t.recv == "" {
			dfail("unsupported declaration %s", t.src(s))
		}
		if t.lookup(name) != nil || t.closures[name] != nil {
			dfail("closure name %s is already in use", name)
		}
		t.closures[name] = &dClosure{decl: true, ftype: ft}
		return fmt.Sprintf("%s-- var %s func(…): the recursive closure is the definition %s above\n", ind, name, t.closureLean(name))
	}
	ty := dGoType(vs.Type)
	if ty == nil || !ty.isInt() || len(vs.Values) != 1 {
		dfail("unsupported declaration %s", t.src(s))
	}
	x := t.exprH(vs.Values[0], ty)
	if !x.t.isInt() {
		dfail("unsupported declaration %s", t.src(s))
	}
	if ty.k == "int8" {
		t.checkConst(vs.Values[0])
	}
	lean := t.declare(name, ty)
	return fmt.Sprintf("%s%s %s := %s\n", ind, t.letKw(name), lean, x.s)
}

// int8 variables only take constants (so Int models them without overflow)
func (t *dtr) checkConst(e ast.Expr) {
	switch e := e.(type) {
	case *ast.BasicLit:
		return
	case *ast.Ident:
		if _, ok := t.c.consts[e.Name]; ok && t.lookup(e.Name) == nil {
			return
		}
	}
	dfail("an int8 variable is assigned the non-constant %s", t.src(e))
}

func (t *dtr) closureLean(name string) string {
	return "sequenceMatcher_" + t.fd.Name.Name + "_" + name
}

func (t *dtr) closureDef(name string, fl *ast.FuncLit) {
	cl := t.closures[name]
	if cl == nil || !cl.decl {
		dfail("assignment of a function literal to %s", name)
	}
	if t.src(cl.ftype) != t.src(fl.Type) {
		dfail("closure %s: the literal's type differs from the declared one", name)
	}
	// exactly one assignment to the closure variable in the function
	n := 0
	ast.Inspect(t.fd.Body, func(nd ast.Node) bool {
		if as, ok := nd.(*ast.AssignStmt); ok {
			for _, l := range as.Lhs {
				if id, ok := l.(*ast.Ident); ok && id.Name == name {
					n++
				}
			}
		}
		return true
	})
	if n != 1 {
		dfail("closure %s is assigned %d times", name, n)
	}
	recvLean := t.lookup(t.recv).lean
	// the closure body is translated in a fresh scope stack: it sees its parameters, itself, and the receiver
	saveScopes, saveRes, saveMut, saveNN := t.scopes, t.result, t.mutNames, t.nonNil
	t.scopes = []map[string]*dvar{{t.recv: &dvar{recvLean, dMatcher}}}
	t.push()
	t.mutNames = assignedNames(fl.Body)
	t.nonNil = map[string]bool{}
	if fl.Type.Results == nil || len(fl.Type.Results.List) != 1 || len(fl.Type.Results.List[0].Names) != 0 {
		dfail("closure %s: result list", name)
	}
	cl.result = dGoType(fl.Type.Results.List[0].Type)
	if cl.result == nil {
		dfail("closure %s: result type", name)
	}
	var pats, tys []string
	var pre strings.Builder
	for _, f := range fl.Type.Params.List {
		ty := dGoType(f.Type)
		if ty == nil || ty == dMatcher {
			dfail("closure %s: parameter type %s", name, t.src(f.Type))
		}
		for _, pn := range f.Names {
			lean := t.declare(pn.Name, ty)
			pats = append(pats, lean)
			tys = append(tys, ty.lean)
			cl.params = append(cl.params, ty)
			if t.mutNames[pn.Name] {
				fmt.Fprintf(&pre, "    let mut %s := %s\n", lean, lean)
			}
		}
	}
	cl.lean = dNS + t.closureLean(name)
	cl.decl = false
	if t.recvMutated(fl.Body) {
		dfail("closure %s changes the captured receiver", name)
	}
	t.result = cl.result
	t.inClos = cl
	savePartial := t.partial
	body := t.block(fl.Body.List, "    ")
	t.inClos = nil
	t.partial = savePartial || true
	t.fuel = true
	t.scopes, t.result, t.mutNames, t.nonNil = saveScopes, saveRes, saveMut, saveNN
	var b strings.Builder
	fmt.Fprintf(&b, "-- the recursive closure %s of %s (captures the receiver, read-only); structural recursion on the\n-- fuel: `none` when it is exhausted\n", name, t.fd.Name.Name)
	fmt.Fprintf(&b, "def %s (%s : %s) : Nat → %s → Option %s\n", t.closureLean(name), recvLean, dMatcher.lean, strings.Join(tys, " → "), cl.result.lean)
	us := make([]string, len(pats))
	for i := range us {
		us[i] = "_"
	}
	fmt.Fprintf(&b, "  | 0, %s => none\n", strings.Join(us, ", "))
	fmt.Fprintf(&b, "  | fuel + 1, %s => do\n", strings.Join(pats, ", "))
	b.WriteString(pre.String())
	b.WriteString(body)
	t.aux = append(t.aux, b.String())
}

func (t *dtr) assign(s *ast.AssignStmt, ind string, rest []ast.Stmt) string {
	var b strings.Builder
	// closure definition
	if s.Tok == token.ASSIGN && len(s.Lhs) == 1 && len(s.Rhs) == 1 {
		if fl, ok := s.Rhs[0].(*ast.FuncLit); ok {
			id, ok := s.Lhs[0].(*ast.Ident)
			if !ok {
				dfail("unsupported statement %s", t.src(s))
			}
			t.closureDef(id.Name, fl)
			return fmt.Sprintf("%s-- %s = func(…) {…}: see above\n", ind, id.Name)
		}
	}
	switch s.Tok {
	case token.DEFINE:
		// _, ok := set[k]
		if len(s.Lhs) == 2 && len(s.Rhs) == 1 {
			ix, isIx := s.Rhs[0].(*ast.IndexExpr)
			u, isU := s.Lhs[0].(*ast.Ident)
			o, isO := s.Lhs[1].(*ast.Ident)
			if isIx && isU && isO && u.Name == "_" && o.Name != "_" {
				x := t.expr(ix.X)
				if x.t.k != "set" {
					dfail("comma-ok read of a %s", x.t.lean)
				}
				k := t.exprH(ix.Index, dText)
				if k.t.k != "text" {
					dfail("set key of type %s", k.t.lean)
				}
				lean := t.declare(o.Name, dBool)
				fmt.Fprintf(&b, "%s%s %s := %ssetHas %s %s\n", ind, t.letKw(o.Name), lean, dRT, x.s, k.s)
				return b.String()
			}
		}
		if len(s.Lhs) != len(s.Rhs) {
			dfail("unsupported statement %s", t.src(s))
		}
		// x := m.f(): a method that changes the receiver
		if len(s.Lhs) == 1 {
			if call, d := t.mutCall(s.Rhs[0]); d != nil {
				if d.result == nil {
					dfail("%s has no result", t.src(s.Rhs[0]))
				}
				id := s.Lhs[0].(*ast.Ident)
				r := t.fresh("r")
				m := t.lookup(t.recv).lean
				fmt.Fprintf(&b, "%slet %s := %s\n", ind, r, call)
				fmt.Fprintf(&b, "%s%s := %s.1\n", ind, m, r)
				// GetGroupedOpCodes: the result aliases the cache it was read from; accepted only when the receiver
				// is dead afterwards (its state is then not returned)
				if d.result.isSlice() && t.mutNames[id.Name] {
					for _, st := range rest {
						if mentions(st, t.recv) {
							dfail("%s aliases a field of the receiver, is assigned later, and the receiver is used again", id.Name)
						}
					}
					t.consumes = true
				}
				lean := t.declare(id.Name, d.result)
				fmt.Fprintf(&b, "%s%s %s := %s.2\n", ind, t.letKw(id.Name), lean, r)
				return b.String()
			}
		}
		// all right-hand sides are evaluated in the old scope, then the names are declared
		var xs []dex
		for i, r := range s.Rhs {
			_ = i
			xs = append(xs, t.expr(r))
		}
		for i, l := range s.Lhs {
			id, ok := l.(*ast.Ident)
			if !ok {
				dfail("unsupported statement %s", t.src(s))
			}
			if id.Name == "_" {
				continue
			}
			x := xs[i]
			if x.t == dMatcher {
				// m := sequenceMatcher{autoJunk: true} (NewMatcher): the local value plays the receiver's role
				if t.recv != "" {
					dfail("a second matcher value")
				}
				t.recv = id.Name
				lean := t.declare(id.Name, dMatcher)
				fmt.Fprintf(&b, "%slet mut %s := %s\n", ind, lean, x.s)
				continue
			}
			if x.t.k == "int8" {
				t.checkConst(s.Rhs[i])
			}
			if x.t == dNil || x.t.k == "unit" {
				dfail("unsupported statement %s", t.src(s))
			}
			lean := t.declare(id.Name, x.t)
			fmt.Fprintf(&b, "%s%s %s := %s\n", ind, t.letKw(id.Name), lean, x.s)
		}
		return b.String()
	case token.ADD_ASSIGN, token.SUB_ASSIGN:
		id, ok := s.Lhs[0].(*ast.Ident)
		if !ok || len(s.Lhs) != 1 {
			dfail("unsupported statement %s", t.src(s))
		}
		v := t.lookup(id.Name)
		x := t.expr(s.Rhs[0])
		if v == nil || v.t.k != "int" || x.t.k != "int" {
			dfail("unsupported statement %s", t.src(s))
		}
		op := "+"
		if s.Tok == token.SUB_ASSIGN {
			op = "-"
		}
		fmt.Fprintf(&b, "%s%s := %s %s %s\n", ind, v.lean, v.lean, op, x.s)
		return b.String()
	case token.ASSIGN:
		if len(s.Lhs) != len(s.Rhs) {
			dfail("unsupported statement %s", t.src(s))
		}
		if len(s.Lhs) == 1 {
			if call, d := t.mutCall(s.Rhs[0]); d != nil {
				_ = call
				dfail("assignment of the result of %s (only `x := m.f()` is supported)", t.src(s.Rhs[0]))
			}
			return t.assign1(s.Lhs[0], s.Rhs[0], "", ind)
		}
		// parallel assignment: sequential when no right-hand side mentions an earlier left-hand side
		needTmp := false
		for i := range s.Rhs {
			for j := 0; j < i; j++ {
				root := s.Lhs[j]
				for {
					if se, ok := root.(*ast.SelectorExpr); ok {
						root = se.X
					} else if ix, ok := root.(*ast.IndexExpr); ok {
						root = ix.X
					} else {
						break
					}
				}
				id, ok := root.(*ast.Ident)
				if !ok || mentions(s.Rhs[i], id.Name) {
					needTmp = true
				}
			}
			// an index on the left is evaluated before the assignments too
			if ix, ok := s.Lhs[i].(*ast.IndexExpr); ok && i > 0 {
				_ = ix
				needTmp = true
			}
		}
		if !needTmp {
			for i := range s.Lhs {
				b.WriteString(t.assign1(s.Lhs[i], s.Rhs[i], "", ind))
			}
			return b.String()
		}
		var tmps []string
		for i := range s.Rhs {
			if _, ok := s.Lhs[i].(*ast.Ident); !ok {
				dfail("parallel assignment to %s", t.src(s.Lhs[i]))
			}
			v := t.lookup(s.Lhs[i].(*ast.Ident).Name)
			if v == nil {
				dfail("assignment to the unknown %s", t.src(s.Lhs[i]))
			}
			x := t.exprH(s.Rhs[i], v.t)
			tmp := t.fresh("t")
			tmps = append(tmps, tmp)
			fmt.Fprintf(&b, "%slet %s := %s\n", ind, tmp, x.s)
		}
		for i := range s.Lhs {
			b.WriteString(t.assign1(s.Lhs[i], nil, tmps[i], ind))
		}
		return b.String()
	}
	dfail("unsupported statement %s", t.src(s))
	return ""
}

// assign1: lhs = rhs (rhs == nil: the already evaluated Lean expression pre)
func (t *dtr) assign1(l ast.Expr, rhs ast.Expr, pre string, ind string) string {
	val := func(hint *dty) dex {
		if rhs == nil {
			return dex{pre, hint, false}
		}
		x := t.exprH(rhs, hint)
		if !x.t.same(hint) && !(hint.k == "optmatches" && x.t.k == "matches") && !(hint.k == "optops" && x.t.k == "ops") {
			dfail("assignment of a %s to a %s", x.t.lean, hint.lean)
		}
		return x
	}
	switch l := l.(type) {
	case *ast.Ident:
		v := t.lookup(l.Name)
		if v == nil || v.t == dMatcher {
			dfail("assignment to %s", l.Name)
		}
		x := val(v.t)
		if v.t.k == "int8" && rhs != nil {
			t.checkConst(rhs)
		}
		return fmt.Sprintf("%s%s := %s\n", ind, v.lean, x.s)
	case *ast.SelectorExpr:
		if !t.isRecv(l.X) || t.inClos != nil {
			dfail("assignment to %s", t.src(l))
		}
		ft := t.c.fields[l.Sel.Name]
		if ft == nil {
			dfail("assignment to the field %s", l.Sel.Name)
		}
		m := t.lookup(t.recv).lean
		var v string
		if ft.k == "optmatches" || ft.k == "optops" {
			if rhs == nil {
				dfail("parallel assignment to a nil-tracked field")
			}
			if selName(rhs) == "nil" && t.lookup("nil") == nil {
				v = "none"
			} else if id, ok := rhs.(*ast.Ident); ok && t.nonNil[id.Name] && t.lookup(id.Name) != nil {
				v = "(some " + t.lookup(id.Name).lean + ")"
			} else {
				dfail("the field %s is compared with nil; it may only be assigned nil or a local slice that is non-nil by construction, not %s", l.Sel.Name, t.src(rhs))
			}
		} else {
			v = val(ft).s
		}
		return fmt.Sprintf("%s%s := { %s with %s := %s }\n", ind, m, m, dLeanIdent(l.Sel.Name), v)
	case *ast.IndexExpr:
		id, ok := l.X.(*ast.Ident)
		if !ok || t.lookup(id.Name) == nil {
			dfail("assignment to %s", t.src(l))
		}
		v := t.lookup(id.Name)
		switch {
		case v.t.k == "set":
			k := t.exprH(l.Index, dText)
			if cl, ok := rhs.(*ast.CompositeLit); !ok || len(cl.Elts) != 0 || t.src(cl.Type) != "struct{}" || k.t.k != "text" {
				dfail("assignment to %s", t.src(l))
			}
			return fmt.Sprintf("%s%s := %ssetAdd %s %s\n", ind, v.lean, dRT, v.lean, k.s)
		case v.t.isMap():
			kt, vt := v.t.mapKV()
			k := t.exprH(l.Index, kt)
			if !k.t.same(kt) {
				dfail("map key type in %s", t.src(l))
			}
			x := val(vt)
			return fmt.Sprintf("%s%s := %smapSet %s %s %s\n", ind, v.lean, dRT, v.lean, k.s, x.s)
		case v.t.isSlice():
			i := t.expr(l.Index)
			if !i.t.isInt() {
				dfail("index type in %s", t.src(l))
			}
			x := val(v.t.elem())
			t.partial = true
			return fmt.Sprintf("%s%s := (← %ssetIndex %s %s %s)\n", ind, v.lean, dSem, v.lean, i.s, x.s)
		}
	}
	dfail("assignment to %s", t.src(l))
	return ""
}

func (t *dtr) ifStmt(s *ast.IfStmt, ind string) string {
	var b strings.Builder
	if s.Init != nil {
		dfail("if with an init statement")
	}
	c := t.expr(s.Cond)
	if c.t.k != "bool" {
		dfail("if condition of type %s", c.t.lean)
	}
	if c.s == "false" {
		// a specialised condition (m.IsJunk != nil): the block is dead
		if s.Else != nil {
			dfail("specialised-false condition with an else branch")
		}
		fmt.Fprintf(&b, "%s-- if %s { … }: the condition is the constant false (m.IsJunk is nil: NewMatcher never sets it; two variables have two addresses); block skipped\n", ind, t.src(s.Cond))
		return b.String()
	}
	fmt.Fprintf(&b, "%sif %s then\n%s", ind, c.s, t.block(s.Body.List, ind+"  "))
	switch e := s.Else.(type) {
	case nil:
	case *ast.BlockStmt:
		fmt.Fprintf(&b, "%selse\n%s", ind, t.block(e.List, ind+"  "))
	case *ast.IfStmt:
		fmt.Fprintf(&b, "%selse\n%s", ind, t.ifStmt(e, ind+"  "))
	default:
		dfail("unsupported else branch")
	}
	return b.String()
}

func (t *dtr) forStmt(s *ast.ForStmt, ind string) string {
	var b strings.Builder
	if s.Init == nil && s.Post == nil && s.Cond != nil {
		return t.whileStmt(s, ind)
	}
	// for i := lo; i != hi / i < hi; i++
	as, ok := s.Init.(*ast.AssignStmt)
	if !ok || as.Tok != token.DEFINE || len(as.Lhs) != 1 || len(as.Rhs) != 1 {
		dfail("unsupported for statement")
	}
	iv, ok := as.Lhs[0].(*ast.Ident)
	post, ok2 := s.Post.(*ast.IncDecStmt)
	cond, ok3 := s.Cond.(*ast.BinaryExpr)
	if !ok || !ok2 || !ok3 || post.Tok != token.INC || selName(post.X) != iv.Name || selName(cond.X) != iv.Name || (cond.Op != token.NEQ && cond.Op != token.LSS) {
		dfail("unsupported for statement (only `for i := lo; i != hi; i++` and `i < hi`)")
	}
	lo := t.expr(as.Rhs[0])
	hi := t.expr(cond.Y)
	if lo.t.k != "int" || hi.t.k != "int" || lo.p || hi.p {
		dfail("for statement: bounds")
	}
	asg := assignedNames(s.Body)
	if asg[iv.Name] {
		dfail("the loop body assigns the loop variable %s", iv.Name)
	}
	for n := range identsIn(cond.Y) {
		if asg[n] {
			dfail("the loop body assigns %s, which the loop bound mentions", n)
		}
	}
	if _, isCall := cond.Y.(*ast.CallExpr); isCall {
		dfail("for statement: the bound is a call")
	}
	if cond.Op == token.NEQ {
		fmt.Fprintf(&b, "%s-- for %s; %s; %s: with %s > %s the Go loop cannot leave normally (%s only grows)\n", ind, t.src(s.Init), t.src(s.Cond), t.src(s.Post), t.src(as.Rhs[0]), t.src(cond.Y), iv.Name)
		fmt.Fprintf(&b, "%sif (decide (%s > %s)) then\n%s  %snoReturn\n", ind, lo.s, hi.s, ind, dRT)
		t.partial = true
	}
	t.push()
	lean := t.declare(iv.Name, dInt)
	save := t.whileDep
	t.whileDep = 0
	body := t.block(s.Body.List, ind+"  ")
	t.whileDep = save
	t.pop()
	fmt.Fprintf(&b, "%sfor %s in %sintRange %s %s do\n%s", ind, lean, dSem, lo.s, hi.s, body)
	return b.String()
}

func (t *dtr) whileStmt(s *ast.ForStmt, ind string) string {
	var b strings.Builder
	// the bound: from the first conjunct
	first := s.Cond
	for {
		if p, ok := first.(*ast.ParenExpr); ok {
			first = p.X
		} else if be, ok := first.(*ast.BinaryExpr); ok && be.Op == token.LAND {
			first = be.X
		} else {
			break
		}
	}
	be, ok := first.(*ast.BinaryExpr)
	if !ok || (be.Op != token.GTR && be.Op != token.LSS) {
		dfail("`for cond` loop: no bound can be read off the first conjunct %s", t.src(first))
	}
	big, small := be.X, be.Y
	if be.Op == token.LSS {
		big, small = be.Y, be.X
	}
	x, y := t.expr(big), t.expr(small)
	if x.t.k != "int" || y.t.k != "int" || x.p || y.p {
		dfail("`for cond` loop: the first conjunct is not a comparison of pure ints")
	}
	done := t.fresh("done")
	fmt.Fprintf(&b, "%s-- for %s { … }: bound (%s) - (%s) + 1 iterations, `none` if that is not enough\n", ind, strings.Join(strings.Fields(t.src(s.Cond)), " "), t.src(big), t.src(small))
	fmt.Fprintf(&b, "%slet mut %s := false\n", ind, done)
	fmt.Fprintf(&b, "%sfor _ in %sfuelList ((%s - %s).toNat + 1) do\n", ind, dRT, x.s, y.s)
	c := t.expr(s.Cond)
	if c.t.k != "bool" {
		dfail("loop condition of type %s", c.t.lean)
	}
	fmt.Fprintf(&b, "%s  if (!%s) then\n%s    %s := true\n%s    break\n", ind, c.s, ind, done, ind)
	t.whileDep++
	b.WriteString(t.block(s.Body.List, ind+"  "))
	t.whileDep--
	fmt.Fprintf(&b, "%sif (!%s) then\n%s  %snoReturn\n", ind, done, ind, dRT)
	t.partial = true
	return b.String()
}

func (t *dtr) rangeStmt(s *ast.RangeStmt, ind string) string {
	var b strings.Builder
	if s.Tok != token.DEFINE {
		dfail("range without :=")
	}
	k, v := "_", "_"
	if s.Key != nil {
		k = s.Key.(*ast.Ident).Name
	}
	if s.Value != nil {
		v = s.Value.(*ast.Ident).Name
	}
	xs := t.expr(s.X)
	asg := assignedNames(s.Body)
	if id, ok := s.X.(*ast.Ident); ok && asg[id.Name] {
		dfail("the loop body assigns the ranged variable %s", id.Name)
	}
	if (k != "_" && asg[k]) || (v != "_" && asg[v]) {
		dfail("the loop body assigns a range variable")
	}
	save := t.whileDep
	t.whileDep = 0
	defer func() { t.whileDep = save }()
	if xs.t.isMap() || xs.t.k == "set" {
		return t.rangeMap(s, xs, k, v, ind)
	}
	if !xs.t.isSlice() {
		dfail("range over %s", xs.t.lean)
	}
	t.push()
	defer t.pop()
	var head string
	switch {
	case k != "_" && v != "_":
		kl := t.declare(k, dInt)
		vl := t.declare(v, xs.t.elem())
		head = fmt.Sprintf("for (%s, %s) in %senum %s do", kl, vl, dSem, xs.s)
	case k == "_" && v != "_":
		vl := t.declare(v, xs.t.elem())
		head = fmt.Sprintf("for %s in %s do", vl, xs.s)
	default:
		dfail("range form")
	}
	body := t.block(s.Body.List, ind+"  ")
	fmt.Fprintf(&b, "%s%s\n%s", ind, head, body)
	return b.String()
}

// rangeMap: `for k[, v] := range aMap` — only for bodies whose effect does not depend on the order:
//
//	(a) delete(other, k)
//	(b) [if c {] set[k] = struct{}{} [}]   with c free of variables the body assigns
func (t *dtr) rangeMap(s *ast.RangeStmt, xs dex, k, v string, ind string) string {
	var b strings.Builder
	if k == "_" {
		dfail("range over a map without the key")
	}
	if xs.p {
		dfail("range over a map expression that can panic")
	}
	if len(s.Body.List) != 1 {
		dfail("range over a map: the body is not of an order-independent shape")
	}
	ranged, isId := s.X.(*ast.Ident)
	if !isId {
		dfail("range over a map that is not a variable")
	}
	inner := s.Body.List[0]
	var guard ast.Expr
	if is, ok := inner.(*ast.IfStmt); ok && is.Init == nil && is.Else == nil && len(is.Body.List) == 1 {
		guard = is.Cond
		inner = is.Body.List[0]
	}
	shape := ""
	target := ""
	switch st := inner.(type) {
	case *ast.ExprStmt:
		if ce, ok := st.X.(*ast.CallExpr); ok && selName(ce.Fun) == "delete" && len(ce.Args) == 2 && selName(ce.Args[1]) == k && guard == nil {
			if id, ok := ce.Args[0].(*ast.Ident); ok && id.Name != ranged.Name {
				shape, target = "delete", id.Name
			}
		}
	case *ast.AssignStmt:
		if st.Tok == token.ASSIGN && len(st.Lhs) == 1 {
			if ix, ok := st.Lhs[0].(*ast.IndexExpr); ok && selName(ix.Index) == k {
				if id, ok := ix.X.(*ast.Ident); ok && id.Name != ranged.Name && t.lookup(id.Name) != nil && t.lookup(id.Name).t.k == "set" {
					shape, target = "collect", id.Name
				}
			}
		}
	}
	if shape == "" {
		dfail("range over the map %s: the body is neither `delete(other, %s)` nor `[if c] set[%s] = struct{}{}`; the result could depend on the iteration order", ranged.Name, k, k)
	}
	if guard != nil && mentions(guard, target) {
		dfail("range over the map %s: the guard mentions %s, which the body changes", ranged.Name, target)
	}
	t.push()
	defer t.pop()
	var head string
	if xs.t.k == "set" {
		if v != "_" {
			dfail("range over a set with a value variable")
		}
		kl := t.declare(k, dText)
		head = fmt.Sprintf("for %s in %s do", kl, xs.s)
	} else {
		kt, vt := xs.t.mapKV()
		kl := t.declare(k, kt)
		vl := "_"
		if v != "_" {
			vl = t.declare(v, vt)
		}
		head = fmt.Sprintf("for (%s, %s) in %s do", kl, vl, xs.s)
	}
	fmt.Fprintf(&b, "%s-- range over a map: the body (%s) gives the same result for every iteration order\n", ind, map[string]string{"delete": "delete from another map", "collect": "guarded insertion of the key into a set"}[shape])
	fmt.Fprintf(&b, "%s%s\n%s", ind, head, t.block(s.Body.List, ind+"  "))
	return b.String()
}
