package main

// difflibgen.go: statement-by-statement transliteration of /repo/internal/difflib/difflib.go (the Go
// port of Python's SequenceMatcher) into Lean do-notation: Generated/DifflibGen.lean.  Run-time
// semantics: lean/GoSnaps/GoDiff.lean (maps as association lists, `noReturn`, `fuelList`), GoSem.lean
// (`len`, `index`, `setIndex`, `intRange`, `enum`).
//
// What is translated (table `difflibSpecs`): min, max, isBJunk, chainB, setSeq1, setSeq2, setSeqs,
// NewMatcher, findLongestMatch, getMatchingBlocks (with its recursive closure matchBlocks),
// getOpCodes, GetGroupedOpCodes; the structures `Match` (type match) and `Matcher` (type
// sequenceMatcher) are generated from the type declarations.  A function that contains anything
// outside the subset below is LEFT OUT (facts.json `funcs_failed`), and so is every function calling it.
//
//   *sequenceMatcher receiver            a VALUE `m : Matcher`; a method that assigns a field (or calls
//                                        one that does) returns the final value first: `(m, result)`
//                                        (just `m` for a method without results).  NewMatcher's
//                                        `m := sequenceMatcher{autoJunk: true}; …; return &m` returns the value
//                                        (the only reference to it).
//   m.IsJunk / m.autoJunk                SPECIALISED: `m.IsJunk != nil` -> false, `m.autoJunk` -> true; a
//                                        statement `if false-constant { … }` is skipped.  Condition
//                                        (checked over the whole package, `checkSpecialisation`): the only
//                                        sequenceMatcher composite literal is `sequenceMatcher{autoJunk: true}`
//                                        in NewMatcher, there is no new(sequenceMatcher) / var of the struct
//                                        type, and no assignment to a selector .IsJunk / .autoJunk.
//                                        Otherwise every function mentioning the two fields is refused.
//   fields compared with nil             (m.matchingBlocks, m.opCodes) are `Option (List …)`: nil = none; a
//                                        field may only be assigned `nil` or a local slice that is
//                                        syntactically non-nil (defined by `[]T{}` / make, reassigned only by
//                                        x = append(x, …)); reading it as a slice is `.getD []`.
//                                        Other fields assigned nil: the empty list / map (never compared).
//   &a == &m.a                           false (a parameter is a fresh variable)
//   map[K]V{} / m[k] / m[k] = v / delete(m, k) / _, ok := s[k]
//                                        GoDiff.mapGet (zero value explicit) / mapSet / mapDel / setHas / setAdd
//   for k[, v] := range someMap          ONLY where the body shape makes the result independent of the
//                                        iteration order: `delete(other, k)`, or `[if c {] set[k] = struct{}{} [}]`
//                                        with c free of variables the body assigns; else refused
//   for i := lo; i != hi; i++            `if lo > hi then noReturn` (the Go loop cannot leave normally: i only
//                                        grows), then `for i in intRange lo hi`; i < hi: intRange directly.
//                                        Body must not assign i or a variable of hi.
//   for cond { body }                    a loop over GoDiff.fuelList N that breaks (setting a flag) when cond
//                                        fails, followed by `if !flag then noReturn`; N = (x - y) + 1 for a first
//                                        conjunct x > y (or y < x) — a GUESS of the variant that needs no
//                                        justification: hitting the bound gives `none`, which claims nothing.
//                                        break / continue / return inside such a loop are refused.
//   var f func(…) R; f = func(…) R {…}   a recursive closure: a separate definition by structural recursion on
//                                        a FUEL argument (`none` when exhausted); it may capture only the
//                                        receiver, read-only; functions calling it get a parameter `fuel`.
//   x, y = e1, e2                        sequential assignments when no ei mentions an earlier xj, else through
//                                        temporaries
//   &&, || with an operand that can panic: short-circuit by `(← (do if l then pure r else pure false))`
//   int8 variables                       Int; only constants may be assigned to them (no overflow)
//   x / y                                Int.tdiv
import (
	"fmt"
	"go/ast"
	"go/token"
	"os"
	"sort"
	"strconv"
	"strings"
)

type dty struct {
	k    string // int bool text texts ints match matches op ops opgroups mapTI mapII mapSI set matcher optmatches optops unit nil int8
	lean string
	zero string
}

func mk(k, lean, zero string) *dty { return &dty{k, lean, zero} }

const dNS = "GoSnaps.Generated.DifflibGen."
const dRT = "GoSnaps.GoDiff."
const dSem = "GoSnaps.GoSem."

var (
	dInt     = mk("int", "Int", "(0 : Int)")
	dInt8    = mk("int8", "Int", "(0 : Int)")
	dBool    = mk("bool", "Bool", "false")
	dText    = mk("text", "(List UInt8)", "([] : List UInt8)")
	dTexts   = mk("texts", "(List (List UInt8))", "([] : List (List UInt8))")
	dInts    = mk("ints", "(List Int)", "([] : List Int)")
	dMatch   = mk("match", dNS+"Match", "")
	dMatches = mk("matches", "(List "+dNS+"Match)", "([] : List "+dNS+"Match)")
	dOp      = mk("op", "GoSnaps.GoIO.OpCodeI", "")
	dOps     = mk("ops", "(List GoSnaps.GoIO.OpCodeI)", "([] : List GoSnaps.GoIO.OpCodeI)")
	dOpGs    = mk("opgroups", "(List (List GoSnaps.GoIO.OpCodeI))", "([] : List (List GoSnaps.GoIO.OpCodeI))")
	dMapTI   = mk("mapTI", "(List (List UInt8 × List Int))", "([] : List (List UInt8 × List Int))")
	dMapII   = mk("mapII", "(List (Int × Int))", "([] : List (Int × Int))")
	dMapSI   = mk("mapSI", "(List (List UInt8 × Int))", "([] : List (List UInt8 × Int))")
	dSet     = mk("set", "(List (List UInt8))", "([] : List (List UInt8))")
	dMatcher = mk("matcher", dNS+"Matcher", "")
	dOptMs   = mk("optmatches", "(Option (List "+dNS+"Match))", "none")
	dOptOps  = mk("optops", "(Option (List GoSnaps.GoIO.OpCodeI))", "none")
	dUnit    = mk("unit", "Unit", "()")
	dNil     = mk("nil", "?", "")
	dEmpty   = mk("emptystruct", "Unit", "()")
)

func (t *dty) isSlice() bool {
	switch t.k {
	case "texts", "ints", "matches", "ops", "opgroups":
		return true
	}
	return false
}
func (t *dty) elem() *dty {
	switch t.k {
	case "texts":
		return dText
	case "ints":
		return dInt
	case "matches":
		return dMatch
	case "ops":
		return dOp
	case "opgroups":
		return dOps
	}
	return nil
}
func (t *dty) isMap() bool { return t.k == "mapTI" || t.k == "mapII" || t.k == "mapSI" }
func (t *dty) mapKV() (*dty, *dty) {
	switch t.k {
	case "mapTI":
		return dText, dInts
	case "mapII":
		return dInt, dInt
	case "mapSI":
		return dText, dInt
	}
	return nil, nil
}
func (t *dty) isInt() bool { return t.k == "int" || t.k == "int8" }
func (t *dty) same(u *dty) bool {
	return t.k == u.k || (t.isInt() && u.isInt())
}

type dErr string

func dfail(f string, a ...any) { panic(dErr(fmt.Sprintf(f, a...))) }

// dGoType: the Go type expression as a dty (nil = outside the subset)
func dGoType(e ast.Expr) *dty {
	switch e := e.(type) {
	case *ast.Ident:
		switch e.Name {
		case "int":
			return dInt
		case "int8":
			return dInt8
		case "bool":
			return dBool
		case "string":
			return dText
		case "match":
			return dMatch
		case "OpCode":
			return dOp
		}
	case *ast.StarExpr:
		if id, ok := e.X.(*ast.Ident); ok && id.Name == "sequenceMatcher" {
			return dMatcher
		}
	case *ast.ArrayType:
		if e.Len != nil {
			return nil
		}
		if el := dGoType(e.Elt); el != nil {
			switch el.k {
			case "text":
				return dTexts
			case "int":
				return dInts
			case "match":
				return dMatches
			case "op":
				return dOps
			case "ops":
				return dOpGs
			}
		}
	case *ast.MapType:
		k := dGoType(e.Key)
		if st, ok := e.Value.(*ast.StructType); ok && st.Fields != nil && len(st.Fields.List) == 0 && k != nil && k.k == "text" {
			return dSet
		}
		v := dGoType(e.Value)
		if k == nil || v == nil {
			return nil
		}
		switch k.k + ">" + v.k {
		case "text>ints":
			return dMapTI
		case "int>int":
			return dMapII
		case "text>int":
			return dMapSI
		}
	}
	return nil
}

type dSpec struct {
	key string // funcKey in package difflib
}

var difflibSpecs = []dSpec{
	{"min"}, {"max"},
	{"sequenceMatcher.isBJunk"}, {"sequenceMatcher.chainB"}, {"sequenceMatcher.setSeq1"}, {"sequenceMatcher.setSeq2"},
	{"sequenceMatcher.setSeqs"}, {"NewMatcher"}, {"sequenceMatcher.findLongestMatch"},
	{"sequenceMatcher.getMatchingBlocks"}, {"sequenceMatcher.getOpCodes"}, {"sequenceMatcher.GetGroupedOpCodes"},
}

type dDone struct {
	lean    string // qualified Lean name
	recv    bool
	mutates bool
	params  []*dty
	result  *dty // nil = none
	partial bool
	fuel    bool
	// consumes: the receiver's final state is not returned although the method changes it (see GetGroupedOpCodes)
	consumes bool
}

type dField struct {
	goName string
	t      *dty
}

type dCtx struct {
	pkg       *pkgInfo
	done      map[string]*dDone
	fields    map[string]*dty // fields of Matcher (Lean field name = Go name)
	fieldList []dField
	specOK    bool
	specWhy   string
	consts    map[string]int64 // iota constants
	nilCmp    map[string]bool  // fields compared with nil
}

var leanKeywords = map[string]bool{"match": true, "fun": true, "do": true, "at": true, "from": true, "end": true, "in": true, "then": true,
	"else": true, "if": true, "let": true, "have": true, "show": true, "by": true, "open": true, "where": true, "with": true, "mut": true,
	"for": true, "return": true, "fuel": true, "instance": true, "structure": true, "def": true, "theorem": true, "namespace": true,
	"section": true, "variable": true, "universe": true, "using": true, "unless": true, "try": true, "catch": true, "finally": true, "class": true,
	"nomatch": true, "break": true, "continue": true, "m0": true, "some": true, "none": true, "pure": true}

func dLeanIdent(n string) string {
	if leanKeywords[n] {
		return n + "_"
	}
	return n
}

func lowerFirst(s string) string {
	if s == "" {
		return s
	}
	return strings.ToLower(s[:1]) + s[1:]
}

// typeSpecOf finds `type name …` in the package
func typeSpecOf(p *pkgInfo, name string) *ast.TypeSpec {
	for _, f := range p.files {
		for _, d := range f.Decls {
			if g, ok := d.(*ast.GenDecl); ok && g.Tok == token.TYPE {
				for _, s := range g.Specs {
					if ts := s.(*ast.TypeSpec); ts.Name.Name == name {
						return ts
					}
				}
			}
		}
	}
	return nil
}

func structFields(ts *ast.TypeSpec) ([]string, []ast.Expr, bool) {
	st, ok := ts.Type.(*ast.StructType)
	if !ok {
		return nil, nil, false
	}
	var names []string
	var types []ast.Expr
	for _, f := range st.Fields.List {
		if len(f.Names) == 0 {
			return nil, nil, false
		}
		for _, n := range f.Names {
			names = append(names, n.Name)
			types = append(types, f.Type)
		}
	}
	return names, types, true
}

// iotaConsts: the constants of a `const ( A T = iota; B; C )` block
func iotaConsts(p *pkgInfo) map[string]int64 {
	out := map[string]int64{}
	for _, f := range p.files {
		for _, d := range f.Decls {
			g, ok := d.(*ast.GenDecl)
			if !ok || g.Tok != token.CONST || len(g.Specs) == 0 {
				continue
			}
			first := g.Specs[0].(*ast.ValueSpec)
			if len(first.Values) != 1 || len(first.Names) != 1 {
				continue
			}
			if id, ok := first.Values[0].(*ast.Ident); !ok || id.Name != "iota" {
				continue
			}
			okBlock := true
			for i, s := range g.Specs {
				vs := s.(*ast.ValueSpec)
				if len(vs.Names) != 1 || (i > 0 && (len(vs.Values) != 0 || vs.Type != nil)) {
					okBlock = false
				}
			}
			if !okBlock {
				continue
			}
			for i, s := range g.Specs {
				out[s.(*ast.ValueSpec).Names[0].Name] = int64(i)
			}
		}
	}
	return out
}

// checkSpecialisation: see the header comment (m.IsJunk / m.autoJunk)
func checkSpecialisation(p *pkgInfo) (bool, string) {
	why := ""
	lits := 0
	for fname, f := range p.files {
		ast.Inspect(f, func(n ast.Node) bool {
			switch n := n.(type) {
			case *ast.AssignStmt:
				for _, l := range n.Lhs {
					if s, ok := l.(*ast.SelectorExpr); ok && (s.Sel.Name == "IsJunk" || s.Sel.Name == "autoJunk") {
						why = fmt.Sprintf("%s: assignment to .%s", fname, s.Sel.Name)
					}
				}
			case *ast.CallExpr:
				if id, ok := n.Fun.(*ast.Ident); ok && id.Name == "new" && len(n.Args) == 1 && selName(n.Args[0]) == "sequenceMatcher" {
					why = fname + ": new(sequenceMatcher)"
				}
			case *ast.ValueSpec:
				if n.Type != nil && strings.TrimPrefix(selName(n.Type), "*") == "sequenceMatcher" && len(n.Values) == 0 && selName(n.Type) == "sequenceMatcher" {
					why = fname + ": a zero-valued sequenceMatcher variable"
				}
			case *ast.CompositeLit:
				if selName(n.Type) == "sequenceMatcher" {
					lits++
					if len(n.Elts) != 1 {
						why = fname + ": sequenceMatcher literal other than {autoJunk: true}"
						return true
					}
					kv, ok := n.Elts[0].(*ast.KeyValueExpr)
					if !ok || selName(kv.Key) != "autoJunk" || selName(kv.Value) != "true" {
						why = fname + ": sequenceMatcher literal other than {autoJunk: true}"
					}
				}
			}
			return true
		})
	}
	if why != "" {
		return false, why
	}
	nm := p.funcs["NewMatcher"]
	if nm == nil || lits != 1 {
		return false, "NewMatcher does not hold the only sequenceMatcher literal"
	}
	inNew := false
	ast.Inspect(nm, func(n ast.Node) bool {
		if cl, ok := n.(*ast.CompositeLit); ok && selName(cl.Type) == "sequenceMatcher" {
			inNew = true
		}
		return true
	})
	if !inNew {
		return false, "the sequenceMatcher literal is not in NewMatcher"
	}
	return true, ""
}

func extractDifflib(p *pkgInfo, F *facts) string {
	var b strings.Builder
	b.WriteString("-- GENERATED by tools/extract (difflibgen.go): statement-by-statement transliteration of\n")
	b.WriteString("-- /repo/internal/difflib/difflib.go into Lean do-notation; run-time semantics: GoSnaps/GoDiff.lean.\n")
	b.WriteString("-- `Id.run do` = total; `Option … := do`: `some r` = the Go function returns r, `none` = it does not return\n")
	b.WriteString("-- normally or a bound of the translation (loop bound, fuel) was hit.  Do not edit: regenerated on every run.\n")
	b.WriteString("import GoSnaps.GoDiff\nset_option linter.unusedVariables false\nnamespace GoSnaps.Generated.DifflibGen\n")
	c := &dCtx{pkg: p, done: map[string]*dDone{}, fields: map[string]*dty{}, consts: iotaConsts(p), nilCmp: map[string]bool{}}
	c.specOK, c.specWhy = checkSpecialisation(p)
	structsOK := func() (ok bool, why string) {
		defer func() {
			if r := recover(); r != nil {
				ok, why = false, fmt.Sprint(r)
			}
		}()
		// OpCode must be the structure GoIO.OpCodeI describes
		ots := typeSpecOf(p, "OpCode")
		if ots == nil {
			return false, "type OpCode not found"
		}
		on, ot, sok := structFields(ots)
		if !sok || strings.Join(on, ",") != "Tag,I1,I2,J1,J2" || selName(ot[0]) != "int8" {
			return false, "type OpCode is not struct{Tag int8; I1, I2, J1, J2 int}"
		}
		for _, t := range ot[1:] {
			if selName(t) != "int" {
				return false, "type OpCode is not struct{Tag int8; I1, I2, J1, J2 int}"
			}
		}
		mts := typeSpecOf(p, "match")
		if mts == nil {
			return false, "type match not found"
		}
		mn, mt, sok := structFields(mts)
		if !sok || strings.Join(mn, ",") != "A,B,Size" {
			return false, "type match is not struct{A, B, Size int}"
		}
		for _, t := range mt {
			if selName(t) != "int" {
				return false, "type match is not struct{A, B, Size int}"
			}
		}
		b.WriteString("\n-- type match struct { A, B, Size int }\nstructure Match where\n  a : Int\n  b : Int\n  size : Int\nderiving Repr, DecidableEq\n")
		// fields compared with nil anywhere in the package
		for _, f := range p.files {
			ast.Inspect(f, func(n ast.Node) bool {
				if be, ok := n.(*ast.BinaryExpr); ok && (be.Op == token.EQL || be.Op == token.NEQ) {
					for _, pr := range [][2]ast.Expr{{be.X, be.Y}, {be.Y, be.X}} {
						if s, ok := pr[0].(*ast.SelectorExpr); ok && selName(pr[1]) == "nil" {
							c.nilCmp[s.Sel.Name] = true
						}
					}
				}
				return true
			})
		}
		sts := typeSpecOf(p, "sequenceMatcher")
		if sts == nil {
			return false, "type sequenceMatcher not found"
		}
		sn, stt, sok := structFields(sts)
		if !sok {
			return false, "type sequenceMatcher is not a struct with named fields"
		}
		b.WriteString("\n-- type sequenceMatcher struct; IsJunk (always nil) and autoJunk (always true) are specialised away;\n-- a field that is compared with nil somewhere is an Option (nil = none)\nstructure Matcher where\n")
		for i, n := range sn {
			if n == "IsJunk" || n == "autoJunk" {
				continue
			}
			t := dGoType(stt[i])
			if t == nil {
				return false, "field " + n + " of sequenceMatcher has an unsupported type"
			}
			if c.nilCmp[n] {
				switch t.k {
				case "matches":
					t = dOptMs
				case "ops":
					t = dOptOps
				default:
					return false, "field " + n + " is compared with nil and is not a []match / []OpCode"
				}
			}
			c.fields[n] = t
			c.fieldList = append(c.fieldList, dField{n, t})
			fmt.Fprintf(&b, "  %s : %s := %s\n", dLeanIdent(n), strings.TrimSuffix(strings.TrimPrefix(t.lean, "("), ")"), t.zero)
		}
		b.WriteString("deriving Repr, DecidableEq\n")
		return true, ""
	}
	ok, why := structsOK()
	for _, sp := range difflibSpecs {
		if !ok {
			F.FuncsFailed[sp.key] = "difflib structures: " + why
			fmt.Fprintf(os.Stderr, "extract: %s NOT transliterated: %s\n", sp.key, why)
			continue
		}
		text, reason := c.tryFunc(sp)
		if reason != "" {
			fmt.Fprintf(os.Stderr, "extract: %s NOT transliterated: %s\n", sp.key, reason)
			b.WriteString("\n-- NOT TRANSLITERATED: " + sp.key + ": " + strings.ReplaceAll(reason, "\n", " ") + "\n")
			F.FuncsFailed[sp.key] = reason
			continue
		}
		b.WriteString("\n" + text)
		F.Funcs[sp.key] = text
	}
	// the composition getUnifiedDiff uses: difflib.NewMatcher(a, b).GetGroupedOpCodes(n)
	nm, gg := c.done["NewMatcher"], c.done["sequenceMatcher.GetGroupedOpCodes"]
	if nm != nil && gg != nil && !nm.partial && gg.fuel && gg.partial {
		b.WriteString("\n-- GLUE (not a Go function): the composition `difflib.NewMatcher(a, b).GetGroupedOpCodes(n)` of\n")
		b.WriteString("-- snaps/diff.go getUnifiedDiff; fuel of the recursive closure matchBlocks: len(a) + 1 (every recursive\n")
		b.WriteString("-- call is on a strictly shorter range of a; the fuel is only a bound: `none` when it does not suffice)\n")
		b.WriteString("def groupedOpCodes (a : List (List UInt8)) (b : List (List UInt8)) (n : Int) : Option (List (List GoSnaps.GoIO.OpCodeI)) :=\n")
		fmt.Fprintf(&b, "  %s (a.length + 1) (%s a b) n\n", gg.lean, nm.lean)
	}
	b.WriteString("\nend GoSnaps.Generated.DifflibGen\n")
	return b.String()
}

var _ = sort.Strings
var _ = strconv.Itoa
