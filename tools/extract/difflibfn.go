package main

// difflibfn.go: the function / statement / expression translator of difflibgen.go.
import (
	"bytes"
	"fmt"
	"go/ast"
	"go/printer"
	"go/token"
	"strings"
)

type dvar struct {
	lean string
	t    *dty
}

type dClosure struct {
	lean   string // qualified name of the auxiliary definition
	params []*dty
	result *dty
	decl   bool // declared by `var f func…`, body not yet seen
	ftype  *ast.FuncType
}

type dtr struct {
	c        *dCtx
	fd       *ast.FuncDecl
	key      string
	recv     string // Go name of the receiver ("" = none)
	scopes   []map[string]*dvar
	tmp      int
	partial  bool
	fuel     bool
	mutates  bool
	consumes bool
	mutNames map[string]bool // names assigned (not merely defined) somewhere in the function
	nonNil   map[string]bool
	aux      []string
	closures map[string]*dClosure
	inClos   *dClosure // translating the body of this closure
	result   *dty
	whileDep int
	stmtsAfterConsume bool
}

type dex struct {
	s string
	t *dty
	p bool // evaluating it can panic (contains a `(← …)`)
}

func (t *dtr) src(n ast.Node) string {
	var b bytes.Buffer
	printer.Fprint(&b, t.c.pkg.fset, n)
	return b.String()
}

func (t *dtr) push()  { t.scopes = append(t.scopes, map[string]*dvar{}) }
func (t *dtr) pop()   { t.scopes = t.scopes[:len(t.scopes)-1] }
func (t *dtr) lookup(n string) *dvar {
	for i := len(t.scopes) - 1; i >= 0; i-- {
		if v, ok := t.scopes[i][n]; ok {
			return v
		}
	}
	return nil
}

// declare a Go variable; a name that is already visible gets a fresh Lean name (Lean cannot shadow a `let mut`)
func (t *dtr) declare(n string, ty *dty) string {
	if n == "_" {
		dfail("declaration of _")
	}
	if _, ok := t.scopes[len(t.scopes)-1][n]; ok {
		dfail("%s is declared twice in one scope", n)
	}
	lean := dLeanIdent(n)
	if t.lookup(n) != nil {
		t.tmp++
		lean = fmt.Sprintf("%s_%d", dLeanIdent(n), t.tmp)
	}
	t.scopes[len(t.scopes)-1][n] = &dvar{lean, ty}
	return lean
}

func (t *dtr) fresh(p string) string {
	t.tmp++
	return fmt.Sprintf("%s_%d", p, t.tmp)
}

func (c *dCtx) tryFunc(sp dSpec) (text string, reason string) {
	defer func() {
		if r := recover(); r != nil {
			if e, ok := r.(dErr); ok {
				text, reason = "", string(e)
				return
			}
			text, reason = "", fmt.Sprint("unexpected AST shape: ", r)
		}
	}()
	fd, ok := c.pkg.funcs[sp.key]
	if !ok || fd.Body == nil {
		return "", "function " + sp.key + " not found in package difflib"
	}
	t := &dtr{c: c, fd: fd, key: sp.key, mutNames: map[string]bool{}, nonNil: map[string]bool{}, closures: map[string]*dClosure{}}
	return t.function(), ""
}

func assignedNames(n ast.Node) map[string]bool {
	out := map[string]bool{}
	mark := func(l ast.Expr) {
		switch l := l.(type) {
		case *ast.Ident:
			out[l.Name] = true
		case *ast.IndexExpr:
			if id, ok := l.X.(*ast.Ident); ok {
				out[id.Name] = true
			}
		}
	}
	ast.Inspect(n, func(n ast.Node) bool {
		switch s := n.(type) {
		case *ast.AssignStmt:
			if s.Tok != token.DEFINE {
				for _, l := range s.Lhs {
					mark(l)
				}
			}
		case *ast.IncDecStmt:
			mark(s.X)
		case *ast.CallExpr:
			if id, ok := s.Fun.(*ast.Ident); ok && id.Name == "delete" && len(s.Args) == 2 {
				mark(s.Args[0])
			}
		}
		return true
	})
	return out
}

// recvMutated: the body assigns a field of the receiver or calls a method on it that does
func (t *dtr) recvMutated(body ast.Node) bool {
	mut := false
	ast.Inspect(body, func(n ast.Node) bool {
		switch s := n.(type) {
		case *ast.AssignStmt:
			for _, l := range s.Lhs {
				if se, ok := l.(*ast.SelectorExpr); ok {
					if id, ok := se.X.(*ast.Ident); ok && id.Name == t.recv {
						mut = true
					}
				}
			}
		case *ast.CallExpr:
			if se, ok := s.Fun.(*ast.SelectorExpr); ok {
				if id, ok := se.X.(*ast.Ident); ok && id.Name == t.recv {
					if d := t.c.done["sequenceMatcher."+se.Sel.Name]; d != nil && d.mutates {
						mut = true
					}
				}
			}
		}
		return true
	})
	return mut
}

func (t *dtr) computeNonNil(body ast.Node) {
	cand := map[string]bool{}
	bad := map[string]bool{}
	ast.Inspect(body, func(n ast.Node) bool {
		s, ok := n.(*ast.AssignStmt)
		if !ok {
			return true
		}
		if len(s.Lhs) != len(s.Rhs) {
			for _, l := range s.Lhs {
				if id, ok := l.(*ast.Ident); ok {
					bad[id.Name] = true
				}
			}
			return true
		}
		for i, l := range s.Lhs {
			id, ok := l.(*ast.Ident)
			if !ok {
				continue
			}
			r := s.Rhs[i]
			if s.Tok == token.DEFINE {
				if cl, ok := r.(*ast.CompositeLit); ok {
					if _, isArr := cl.Type.(*ast.ArrayType); isArr {
						cand[id.Name] = true
						continue
					}
				}
				if ce, ok := r.(*ast.CallExpr); ok && selName(ce.Fun) == "make" {
					cand[id.Name] = true
					continue
				}
				bad[id.Name] = true
				continue
			}
			if ce, ok := r.(*ast.CallExpr); ok && selName(ce.Fun) == "append" && len(ce.Args) >= 1 && selName(ce.Args[0]) == id.Name {
				continue
			}
			bad[id.Name] = true
		}
		return true
	})
	for n := range cand {
		if !bad[n] {
			t.nonNil[n] = true
		}
	}
}

func (t *dtr) function() string {
	fd := t.fd
	t.push()
	var params []string
	var ptys []*dty
	name := fd.Name.Name
	leanName := name
	isMethod := fd.Recv != nil
	if isMethod {
		r := fd.Recv.List[0]
		if len(r.Names) != 1 || dGoType(r.Type) != dMatcher {
			dfail("unsupported receiver")
		}
		t.recv = r.Names[0].Name
		leanName = "sequenceMatcher_" + name
	}
	t.mutNames = assignedNames(fd.Body)
	t.computeNonNil(fd.Body)
	if isMethod {
		t.mutates = t.recvMutated(fd.Body)
		lean := t.declare(t.recv, dMatcher)
		params = append(params, fmt.Sprintf("(%s : %s)", lean, dMatcher.lean))
	}
	var pre strings.Builder
	if t.mutates {
		fmt.Fprintf(&pre, "  let mut %s := %s\n", t.lookup(t.recv).lean, t.lookup(t.recv).lean)
	}
	for _, f := range fd.Type.Params.List {
		ty := dGoType(f.Type)
		if ty == nil || ty == dMatcher {
			dfail("parameter type %s", t.src(f.Type))
		}
		for _, n := range f.Names {
			lean := t.declare(n.Name, ty)
			params = append(params, fmt.Sprintf("(%s : %s)", lean, ty.lean))
			ptys = append(ptys, ty)
			if t.mutNames[n.Name] {
				fmt.Fprintf(&pre, "  let mut %s := %s\n", lean, lean)
			}
		}
	}
	if fd.Type.Results != nil {
		if len(fd.Type.Results.List) != 1 || len(fd.Type.Results.List[0].Names) > 0 {
			dfail("more than one result or named results")
		}
		t.result = dGoType(fd.Type.Results.List[0].Type)
		if t.result == nil {
			dfail("result type %s", t.src(fd.Type.Results.List[0].Type))
		}
	}
	// NewMatcher returns &m, m a local sequenceMatcher: the value
	body := t.block(fd.Body.List, "  ")
	if t.result == nil {
		if !t.mutates {
			dfail("a function without results that does not change its receiver")
		}
		if n := len(fd.Body.List); n == 0 || !isReturn(fd.Body.List[n-1]) {
			body += "  return " + t.lookup(t.recv).lean + "\n"
		}
	}
	var rty string
	switch {
	case t.result == nil:
		rty = dMatcher.lean
	case t.mutates && !t.consumes:
		rty = "(" + dMatcher.lean + " × " + t.result.lean + ")"
	default:
		rty = t.result.lean
	}
	var b strings.Builder
	for _, a := range t.aux {
		b.WriteString(a + "\n")
	}
	fmt.Fprintf(&b, "-- %s (internal/difflib/difflib.go)\n", strings.TrimPrefix(t.key, "sequenceMatcher."))
	if t.consumes {
		b.WriteString("-- (the receiver's final state is NOT returned: `codes` aliases the cached m.opCodes, which the index\n-- assignments below also change in Go; checked: m is not mentioned after `codes := m.getOpCodes()`)\n")
	}
	if t.fuel {
		params = append([]string{"(fuel : Nat)"}, params...)
	}
	if t.partial {
		fmt.Fprintf(&b, "def %s %s : Option %s := do\n", leanName, strings.Join(params, " "), rty)
	} else {
		fmt.Fprintf(&b, "def %s %s : %s := Id.run do\n", leanName, strings.Join(params, " "), rty)
	}
	b.WriteString(pre.String())
	b.WriteString(body)
	res := t.result
	t.c.done[t.key] = &dDone{lean: dNS + leanName, recv: isMethod, mutates: t.mutates && !t.consumes, params: ptys, result: res, partial: t.partial, fuel: t.fuel, consumes: t.consumes}
	if t.key == "NewMatcher" {
		t.c.done[t.key].result = dMatcher
	}
	return b.String()
}

func isReturn(s ast.Stmt) bool {
	_, ok := s.(*ast.ReturnStmt)
	return ok
}

// ---------------------------------------------------------------- expressions

func (t *dtr) expr(e ast.Expr) dex { return t.exprH(e, nil) }

func (t *dtr) intLit(n int64) string {
	if n < 0 {
		return fmt.Sprintf("(-%d : Int)", -n)
	}
	return fmt.Sprintf("(%d : Int)", n)
}

func (t *dtr) isRecv(e ast.Expr) bool {
	id, ok := e.(*ast.Ident)
	if !ok || t.recv == "" || id.Name != t.recv {
		return false
	}
	v := t.lookup(id.Name)
	return v != nil && v.t == dMatcher
}

func (t *dtr) exprH(e ast.Expr, hint *dty) dex {
	switch e := e.(type) {
	case *ast.ParenExpr:
		x := t.exprH(e.X, hint)
		return dex{"(" + x.s + ")", x.t, x.p}
	case *ast.BasicLit:
		if e.Kind == token.INT {
			var n int64
			if _, err := fmt.Sscan(e.Value, &n); err != nil {
				dfail("integer literal %s", e.Value)
			}
			return dex{t.intLit(n), dInt, false}
		}
		dfail("literal %s", e.Value)
	case *ast.Ident:
		if v := t.lookup(e.Name); v != nil {
			if v.t == dMatcher {
				dfail("the matcher %s is used as a value (aliasing is not modelled)", e.Name)
			}
			return dex{v.lean, v.t, false}
		}
		switch e.Name {
		case "true", "false":
			return dex{e.Name, dBool, false}
		case "nil":
			if hint != nil && (hint.isSlice() || hint.isMap() || hint.k == "set") {
				return dex{hint.zero, hint, false}
			}
			if hint != nil && (hint.k == "optmatches" || hint.k == "optops") {
				return dex{"none", hint, false}
			}
			dfail("nil without a slice / map type")
		}
		if n, ok := t.c.consts[e.Name]; ok {
			return dex{t.intLit(n), dInt8, false}
		}
		dfail("unknown identifier %s", e.Name)
	case *ast.UnaryExpr:
		switch e.Op {
		case token.NOT:
			x := t.expr(e.X)
			if x.t.k != "bool" {
				dfail("! of a non-bool")
			}
			return dex{"(!" + x.s + ")", dBool, x.p}
		case token.SUB:
			x := t.expr(e.X)
			if !x.t.isInt() {
				dfail("- of a non-int")
			}
			return dex{"(-" + x.s + ")", x.t, x.p}
		}
		dfail("unary %s", e.Op)
	case *ast.BinaryExpr:
		return t.binary(e)
	case *ast.CallExpr:
		return t.call(e, hint)
	case *ast.IndexExpr:
		x := t.expr(e.X)
		if x.t.isSlice() {
			i := t.expr(e.Index)
			if !i.t.isInt() {
				dfail("index of type %s", i.t.lean)
			}
			t.partial = true
			return dex{"(← " + dSem + "index " + x.s + " " + i.s + ")", x.t.elem(), true}
		}
		if x.t.isMap() {
			kt, vt := x.t.mapKV()
			k := t.exprH(e.Index, kt)
			if !k.t.same(kt) {
				dfail("map key of type %s", k.t.lean)
			}
			return dex{"(" + dRT + "mapGet " + x.s + " " + k.s + " " + vt.zero + ")", vt, x.p || k.p}
		}
		dfail("indexing a value of type %s", x.t.lean)
	case *ast.SelectorExpr:
		if t.isRecv(e.X) {
			m := t.lookup(t.recv).lean
			switch e.Sel.Name {
			case "autoJunk":
				if !t.c.specOK {
					dfail("m.autoJunk cannot be specialised: %s", t.c.specWhy)
				}
				return dex{"true", dBool, false}
			case "IsJunk":
				dfail("m.IsJunk used other than in a comparison with nil")
			}
			ft, ok := t.c.fields[e.Sel.Name]
			if !ok {
				dfail("unknown field %s", e.Sel.Name)
			}
			switch ft.k {
			case "optmatches":
				return dex{"(" + m + "." + dLeanIdent(e.Sel.Name) + ".getD [])", dMatches, false}
			case "optops":
				return dex{"(" + m + "." + dLeanIdent(e.Sel.Name) + ".getD [])", dOps, false}
			}
			return dex{m + "." + dLeanIdent(e.Sel.Name), ft, false}
		}
		x := t.expr(e.X)
		switch x.t.k {
		case "match":
			if f := map[string]string{"A": "a", "B": "b", "Size": "size"}[e.Sel.Name]; f != "" {
				return dex{x.s + "." + f, dInt, x.p}
			}
		case "op":
			if f := map[string]string{"Tag": "tag", "I1": "i1", "I2": "i2", "J1": "j1", "J2": "j2"}[e.Sel.Name]; f != "" {
				ft := dInt
				if f == "tag" {
					ft = dInt8
				}
				return dex{x.s + "." + f, ft, x.p}
			}
		}
		dfail("selector %s", t.src(e))
	case *ast.CompositeLit:
		return t.composite(e, hint)
	}
	dfail("unsupported expression %s", t.src(e))
	return dex{}
}

func (t *dtr) composite(e *ast.CompositeLit, hint *dty) dex {
	var ty *dty
	if e.Type == nil {
		ty = hint
		if ty == nil {
			dfail("composite literal without a type")
		}
	} else if selName(e.Type) == "sequenceMatcher" {
		if !t.c.specOK {
			dfail("sequenceMatcher literal: %s", t.c.specWhy)
		}
		if t.key != "NewMatcher" {
			dfail("sequenceMatcher literal outside NewMatcher")
		}
		return dex{"({} : " + dMatcher.lean + ")", dMatcher, false}
	} else {
		ty = dGoType(e.Type)
	}
	if ty == nil {
		dfail("composite literal of type %s", t.src(e.Type))
	}
	switch {
	case ty.isMap() || ty.k == "set":
		if len(e.Elts) != 0 {
			dfail("non-empty map literal")
		}
		return dex{ty.zero, ty, false}
	case ty.isSlice():
		var parts []string
		p := false
		for _, el := range e.Elts {
			x := t.exprH(el, ty.elem())
			if !x.t.same(ty.elem()) {
				dfail("slice literal element of type %s", x.t.lean)
			}
			parts = append(parts, x.s)
			p = p || x.p
		}
		if len(parts) == 0 {
			return dex{ty.zero, ty, false}
		}
		return dex{"([" + strings.Join(parts, ", ") + "] : " + strings.TrimSuffix(strings.TrimPrefix(ty.lean, "("), ")") + ")", ty, p}
	case ty.k == "match" || ty.k == "op":
		goF := []string{"A", "B", "Size"}
		lnF := []string{"a", "b", "size"}
		if ty.k == "op" {
			goF = []string{"Tag", "I1", "I2", "J1", "J2"}
			lnF = []string{"tag", "i1", "i2", "j1", "j2"}
		}
		if len(e.Elts) != len(goF) {
			dfail("struct literal %s does not give every field", t.src(e))
		}
		vals := make([]string, len(goF))
		p := false
		for i, el := range e.Elts {
			idx := i
			v := el
			if kv, ok := el.(*ast.KeyValueExpr); ok {
				idx = -1
				for j, g := range goF {
					if selName(kv.Key) == g {
						idx = j
					}
				}
				if idx < 0 {
					dfail("unknown field in %s", t.src(e))
				}
				v = kv.Value
			}
			if vals[idx] != "" {
				dfail("field given twice in %s", t.src(e))
			}
			x := t.exprH(v, dInt)
			if !x.t.isInt() {
				dfail("struct field of type %s", x.t.lean)
			}
			// (evaluation order = textual order: the operands are pure or panic, every panic is `none`)
			vals[idx] = x.s
			p = p || x.p
		}
		var fs []string
		for i := range goF {
			fs = append(fs, lnF[i]+" := "+vals[i])
		}
		return dex{"({ " + strings.Join(fs, ", ") + " } : " + ty.lean + ")", ty, p}
	}
	dfail("composite literal %s", t.src(e))
	return dex{}
}

func (t *dtr) binary(e *ast.BinaryExpr) dex {
	// &p == &m.f : distinct variables
	if e.Op == token.EQL || e.Op == token.NEQ {
		ux, okx := e.X.(*ast.UnaryExpr)
		uy, oky := e.Y.(*ast.UnaryExpr)
		if okx && oky && ux.Op == token.AND && uy.Op == token.AND {
			id, isId := ux.X.(*ast.Ident)
			se, isSel := uy.X.(*ast.SelectorExpr)
			if isId && isSel && t.lookup(id.Name) != nil && t.isRecv(se.X) {
				if e.Op == token.EQL {
					return dex{"false", dBool, false}
				}
				return dex{"true", dBool, false}
			}
			dfail("address comparison %s", t.src(e))
		}
		// field compared with nil
		for _, pr := range [][2]ast.Expr{{e.X, e.Y}, {e.Y, e.X}} {
			if selName(pr[1]) != "nil" || t.lookup("nil") != nil {
				continue
			}
			se, ok := pr[0].(*ast.SelectorExpr)
			if !ok || !t.isRecv(se.X) {
				dfail("comparison with nil: %s", t.src(e))
			}
			if se.Sel.Name == "IsJunk" {
				if !t.c.specOK {
					dfail("m.IsJunk cannot be specialised: %s", t.c.specWhy)
				}
				if e.Op == token.NEQ {
					return dex{"false", dBool, false}
				}
				return dex{"true", dBool, false}
			}
			ft := t.c.fields[se.Sel.Name]
			if ft == nil || (ft.k != "optmatches" && ft.k != "optops") {
				dfail("comparison with nil: %s", t.src(e))
			}
			f := t.lookup(t.recv).lean + "." + dLeanIdent(se.Sel.Name)
			if e.Op == token.NEQ {
				return dex{f + ".isSome", dBool, false}
			}
			return dex{f + ".isNone", dBool, false}
		}
	}
	if e.Op == token.LAND || e.Op == token.LOR {
		x, y := t.expr(e.X), t.expr(e.Y)
		if x.t.k != "bool" || y.t.k != "bool" {
			dfail("%s of non-bools", e.Op)
		}
		if !y.p {
			op := "&&"
			if e.Op == token.LOR {
				op = "||"
			}
			return dex{"(" + x.s + " " + op + " " + y.s + ")", dBool, x.p}
		}
		if e.Op == token.LAND {
			return dex{"(← (do if " + x.s + " then pure " + y.s + " else pure false))", dBool, true}
		}
		return dex{"(← (do if " + x.s + " then pure true else pure " + y.s + "))", dBool, true}
	}
	x := t.expr(e.X)
	y := t.exprH(e.Y, x.t)
	p := x.p || y.p
	switch e.Op {
	case token.ADD, token.SUB, token.MUL:
		if !x.t.isInt() || !y.t.isInt() || x.t.k == "int8" || y.t.k == "int8" {
			dfail("arithmetic on %s, %s", x.t.lean, y.t.lean)
		}
		return dex{"(" + x.s + " " + e.Op.String() + " " + y.s + ")", dInt, p}
	case token.QUO:
		if x.t.k != "int" || y.t.k != "int" {
			dfail("division on %s", x.t.lean)
		}
		if bl, ok := e.Y.(*ast.BasicLit); !ok || bl.Value == "0" {
			dfail("division by a non-literal or zero")
		}
		return dex{"(Int.tdiv " + x.s + " " + y.s + ")", dInt, p}
	case token.LSS, token.LEQ, token.GTR, token.GEQ:
		if !x.t.isInt() || !y.t.isInt() {
			dfail("order comparison on %s", x.t.lean)
		}
		return dex{"(decide (" + x.s + " " + e.Op.String() + " " + y.s + "))", dBool, p}
	case token.EQL, token.NEQ:
		if !(x.t.isInt() && y.t.isInt()) && !(x.t.k == "text" && y.t.k == "text") && !(x.t.k == "bool" && y.t.k == "bool") {
			dfail("== on %s, %s", x.t.lean, y.t.lean)
		}
		return dex{"(" + x.s + " " + e.Op.String() + " " + y.s + ")", dBool, p}
	}
	dfail("operator %s", e.Op)
	return dex{}
}

func (t *dtr) args(what string, as []ast.Expr, ptys []*dty) ([]string, bool) {
	if len(as) != len(ptys) {
		dfail("call of %s with %d arguments", what, len(as))
	}
	var out []string
	p := false
	for i, a := range as {
		x := t.exprH(a, ptys[i])
		if !x.t.same(ptys[i]) {
			dfail("argument %d of %s has type %s", i+1, what, x.t.lean)
		}
		out = append(out, x.s)
		p = p || x.p
	}
	return out, p
}

// wrap a call: `(← f …)` for a partial callee
func (t *dtr) wrapCall(callee string, partial bool, args []string) string {
	s := callee
	if len(args) > 0 {
		s += " " + strings.Join(args, " ")
	}
	if partial {
		t.partial = true
		return "(← " + s + ")"
	}
	return "(" + s + ")"
}

func (t *dtr) call(e *ast.CallExpr, hint *dty) dex {
	if e.Ellipsis != token.NoPos {
		dfail("variadic call %s", t.src(e))
	}
	if id, ok := e.Fun.(*ast.Ident); ok && t.lookup(id.Name) == nil {
		if cl, ok := t.closures[id.Name]; ok {
			if cl.decl {
				dfail("closure %s called before it is defined", id.Name)
			}
			a, _ := t.args(id.Name, e.Args, cl.params)
			t.fuel = true
			m := t.lookup(t.recv).lean
			return dex{t.wrapCall(cl.lean, true, append([]string{m, "fuel"}, a...)), cl.result, true}
		}
		switch id.Name {
		case "len":
			if len(e.Args) != 1 {
				dfail("len")
			}
			x := t.expr(e.Args[0])
			if !x.t.isSlice() && !x.t.isMap() && x.t.k != "set" && x.t.k != "text" {
				dfail("len of %s", x.t.lean)
			}
			return dex{"(" + dSem + "len " + x.s + ")", dInt, x.p}
		case "append":
			if len(e.Args) != 2 {
				dfail("append with %d arguments", len(e.Args))
			}
			x := t.exprH(e.Args[0], hint)
			if !x.t.isSlice() {
				dfail("append to %s", x.t.lean)
			}
			y := t.exprH(e.Args[1], x.t.elem())
			if !y.t.same(x.t.elem()) {
				dfail("append of %s to %s", y.t.lean, x.t.lean)
			}
			return dex{"(" + x.s + " ++ [" + y.s + "])", x.t, x.p || y.p}
		case "make":
			if len(e.Args) < 2 {
				dfail("make without a length")
			}
			ty := dGoType(e.Args[0])
			if ty == nil || !ty.isSlice() {
				dfail("make of %s", t.src(e.Args[0]))
			}
			if bl, ok := e.Args[1].(*ast.BasicLit); !ok || bl.Value != "0" {
				dfail("make with a length other than the literal 0")
			}
			if len(e.Args) == 3 {
				if c := t.expr(e.Args[2]); c.p || !c.t.isInt() {
					dfail("make: capacity")
				}
			}
			return dex{ty.zero, ty, false}
		}
		if d := t.c.done[id.Name]; d != nil && !d.recv {
			a, p := t.args(id.Name, e.Args, d.params)
			if d.fuel {
				t.fuel = true
				a = append([]string{"fuel"}, a...)
			}
			return dex{t.wrapCall(d.lean, d.partial, a), d.result, p || d.partial}
		}
		dfail("call of the untranslated function %s", id.Name)
	}
	if se, ok := e.Fun.(*ast.SelectorExpr); ok && t.isRecv(se.X) {
		d := t.c.done["sequenceMatcher."+se.Sel.Name]
		if d == nil {
			dfail("call of the untranslated method %s", se.Sel.Name)
		}
		if d.mutates || d.consumes || d.result == nil {
			dfail("call of %s, which changes the receiver, inside an expression", se.Sel.Name)
		}
		a, p := t.args(se.Sel.Name, e.Args, d.params)
		a = append([]string{t.lookup(t.recv).lean}, a...)
		if d.fuel {
			t.fuel = true
			a = append([]string{"fuel"}, a...)
		}
		return dex{t.wrapCall(d.lean, d.partial, a), d.result, p || d.partial}
	}
	dfail("unsupported call %s", t.src(e))
	return dex{}
}
