package main

// Extension of funcs.go to the effectful functions of snaps/snapshot.go, snaps/clean.go and the
// Match* flows (Generated/FuncsIO.lean).  The Go run-time semantics these translations rely on is
// lean/GoSnaps/GoIO.lean.
//
// Additional representation of Go values
//   error           -> GoIO.Err          (`err != nil` -> err.notNil, `err == nil` -> err.isNil,
//                                         errors.Is(err, errSnapNotFound) -> err.isSnapNotFound,
//                                         nil -> Err.nil, errSnapNotFound -> Err.snapNotFound)
//   *bufio.Scanner  -> GoIO.Scanner      (s.Bytes() -> s.bytes, s.Err() -> s.err)
//   *os.File        -> GoIO.File         strings.Builder / bytes.Buffer locals -> their content
//   N results       -> right-nested tuple A × B × C
//
// Effects.  A function whose spec says fx = "ro" reads the file system: it gets the leading
// parameters `(io : IOFail) (fs : FS)`.  fx = "rw" also writes it: the body starts with
// `let mut fs := fs` and every return is `(fs, …)`.  Pointer parameters listed in `inout`
// (`*bufio.Scanner`, `*os.File`) are returned after `fs` and before the Go results.  An effectful
// call (table `fxLib`, or a translated function with fx / inout) may occur as an expression
// statement, as the whole right-hand side of an assignment or definition, as the init statement of
// an `if`, or as the only operand of `return`; it is emitted as
//     let r_k := <call>;  fs := r_k.1;  f := r_k.2.1;  …      (state the call updates)
// followed by the use of its results `r_k.2.2…`.
//
// Statement idioms -> Lean shape (in addition to funcs.go)
//   for s.Scan() { B }             for _ in GoIO.Scanner.fuel s do  s := s.scan; if !s.ok then break; B
//   if x := e; c { A } else { B }  let x_k := e; if c then A else B     (x renamed: no capture)
//   var sb strings.Builder / var b bytes.Buffer / x := bytes.Buffer{}     let mut sb := []
//   sb.Write(x) sb.WriteString(x) sb.WriteByte(c) sb.Reset()           sb := sb ++ x … sb := []
//   sb.String() sb.Bytes() sb.Len()                                    sb, sb, len sb
//   sb.Grow(n)                                                         (nothing: capacity only)
//   _m.Lock() _m.RLock() s.Lock() s.Unlock(), defer _m.Unlock() …      comment (locking is the subject
//                                                  of Generated/Structural.lean and the C06 model)
//   defer f.Close() / f.Close()                                        comment (errors of Close are
//                                                  discarded by the Go code, a handle has no other state)
//   f.Truncate(0); f.Seek(0, io.SeekStart)        fs := GoIO.fileTruncate0 fs f; f := GoIO.fileSeekStart f
//                                                  (results discarded by the Go code — checked)
//   fmt.Fprintf(f, "lit %s %d", a, b) / fmt.Sprintf   the literal format is split at translation time:
//                                                  only %s (string / []byte operand), %d (int operand),
//                                                  %v (string, int or error operand) and %% are accepted
import (
	"fmt"
	"go/ast"
	"go/token"
	"strconv"
	"strings"
)

const ioNS = "GoSnaps.GoIO."

// fxRes: an effectful call ready to be emitted
type fxRes struct {
	call    string   // Lean expression
	outs    []string // Go variables updated from the leading components of the result ("fs" = the file system)
	results []*ty    // types of the remaining components (the Go results)
	partial bool
}

func nestedPair(ts []*ty) *ty {
	switch len(ts) {
	case 0:
		return tUnit
	case 1:
		return ts[0]
	}
	return pairOf(ts[0], nestedPair(ts[1:]))
}

// proj: component i of an n-component right-nested tuple
func proj(val string, i, n int) string {
	if n == 1 {
		return val
	}
	if i < n-1 {
		return val + strings.Repeat(".2", i) + ".1"
	}
	return val + strings.Repeat(".2", i)
}

// comps: the first n components' types of a right-nested tuple type
func comps(t *ty, n int) []*ty {
	if n == 1 {
		return []*ty{t}
	}
	if t.k != "pair" {
		return nil
	}
	rest := comps(t.b, n-1)
	if rest == nil {
		return nil
	}
	return append([]*ty{t.a}, rest...)
}

func (t *ftr) isBuilderType(e ast.Expr) bool {
	s := t.src(e)
	return s == "strings.Builder" || s == "bytes.Buffer"
}

// recvIdent: x.M(...) with x a local variable
func recvCall(e ast.Expr) (recv *ast.Ident, method string, call *ast.CallExpr, ok bool) {
	c, ok1 := e.(*ast.CallExpr)
	if !ok1 {
		return nil, "", nil, false
	}
	sel, ok2 := c.Fun.(*ast.SelectorExpr)
	if !ok2 {
		return nil, "", nil, false
	}
	id, ok3 := sel.X.(*ast.Ident)
	if !ok3 {
		return nil, "", nil, false
	}
	return id, sel.Sel.Name, c, true
}

// lockCall: _m.Lock() / _m.RLock() / _m.Unlock() / _m.RUnlock() / s.Lock() / s.Unlock() on a mutex
func (t *ftr) isLockCall(e ast.Expr) bool {
	id, m, c, ok := recvCall(e)
	if !ok || len(c.Args) != 0 {
		return false
	}
	switch m {
	case "Lock", "Unlock", "RLock", "RUnlock":
		// a package-level mutex or the receiver (which embeds sync.Mutex): never a local value of a modelled type
		vt := t.lookup(id.Name)
		return vt == nil || vt.k == "registry" || vt.k == "sregistry"
	}
	return false
}

func (t *ftr) isCloseCall(e ast.Expr) bool {
	id, m, c, ok := recvCall(e)
	return ok && m == "Close" && len(c.Args) == 0 && t.lookup(id.Name) != nil && t.lookup(id.Name).k == "file"
}

// fmtConcat splits a literal format string and pairs the verbs with the operands
func (t *ftr) fmtConcat(format string, args []ast.Expr) (string, bool, bool) {
	var parts []string
	lit := ""
	flush := func() {
		if lit != "" {
			parts = append(parts, bytesLit(lit))
			lit = ""
		}
	}
	ai := 0
	p := false
	for i := 0; i < len(format); i++ {
		c := format[i]
		if c != '%' {
			lit += string(c)
			continue
		}
		if i+1 >= len(format) {
			t.fail("format %q ends with %%", format)
			return "", false, false
		}
		i++
		v := format[i]
		if v == '%' {
			lit += "%"
			continue
		}
		if v != 's' && v != 'd' && v != 'v' {
			t.fail("format verb %%%c in %q is outside the translated subset (%%s %%d %%v %%%%)", v, format)
			return "", false, false
		}
		if ai >= len(args) {
			t.fail("format %q has more verbs than operands", format)
			return "", false, false
		}
		x := t.expr(args[ai])
		ai++
		if t.err != nil {
			return "", false, false
		}
		p = p || x.p
		flush()
		switch {
		case (v == 's' || v == 'v') && x.t.k == "text":
			parts = append(parts, x.s)
		case (v == 'd' || v == 'v') && x.t.k == "int":
			parts = append(parts, "(GoSnaps.GoSem.itoa "+x.s+")")
		case (v == 'v' || v == 's') && x.t.k == "err":
			// err.Error() (a nil error would print %!v(<nil>) / %!s(<nil>): the operands here are the
			// Reason of a MatcherError or an err known to be non-nil)
			parts = append(parts, "("+x.s+").text")
		default:
			t.fail("format verb %%%c applied to an operand of type %s", v, x.t.lean())
			return "", false, false
		}
	}
	flush()
	if ai != len(args) {
		t.fail("format %q has fewer verbs than operands", format)
		return "", false, false
	}
	if len(parts) == 0 {
		return "([] : List UInt8)", p, true
	}
	return "(" + strings.Join(parts, " ++ ") + ")", p, true
}

func (t *ftr) hasExtra(name string) bool {
	for _, xp := range t.sp.extra {
		if xp.name == name {
			return true
		}
	}
	return false
}

// crossPkg: pkg.F(...) naming a translated function of another package
func (t *ftr) crossPkg(fun ast.Expr) (*doneFn, string, bool) {
	sel, ok := fun.(*ast.SelectorExpr)
	if !ok {
		return nil, "", false
	}
	id, ok := sel.X.(*ast.Ident)
	if !ok || t.lookup(id.Name) != nil {
		return nil, "", false
	}
	d, ok := t.funcs[id.Name+"."+sel.Sel.Name]
	if !ok || id.Name == t.sp.pkg {
		return nil, "", false
	}
	return d, sel.Sel.Name, true
}

// anyArg: is parameter i of the translated function `name` declared `any` in Go?
func (t *ftr) anyArg(name string, i int) bool {
	if d, ok := t.funcs[t.sp.pkg+"."+name]; ok {
		return d.anyP[i]
	}
	return false
}

// fsx: the expression denoting the current file system
func (t *ftr) fsx() string {
	if t.sp.fx == "st" {
		return "st.fs"
	}
	return "fs"
}

func (t *ftr) needFS(what string) bool {
	if t.sp.fx == "" {
		t.fail("%s needs the file system, but %s is not declared fx", what, t.sp.name)
		return false
	}
	return true
}

func (t *ftr) needRW(what string) bool {
	if t.sp.fx != "rw" && t.sp.fx != "st" {
		t.fail("%s writes the file system, but %s is not declared fx = rw", what, t.sp.name)
		return false
	}
	return true
}

func (t *ftr) textArg(e ast.Expr, what string) (string, bool) {
	x := t.expr(e)
	if t.err != nil {
		return "", false
	}
	if x.t.k != "text" {
		t.fail("%s: argument of type %s", what, x.t.lean())
		return "", false
	}
	if x.p {
		t.fail("%s: argument can panic", what)
		return "", false
	}
	return x.s, true
}

func (t *ftr) fileVar(e ast.Expr, what string) (string, bool) {
	id, ok := e.(*ast.Ident)
	if !ok || t.lookup(id.Name) == nil || t.lookup(id.Name).k != "file" {
		t.fail("%s: the file must be a local *os.File variable", what)
		return "", false
	}
	return id.Name, true
}

// fxCall recognises an effectful call.  ok = false and t.err == nil: not an effectful call.
func (t *ftr) fxCall(e ast.Expr) (*fxRes, bool) {
	c, isCall := e.(*ast.CallExpr)
	if !isCall {
		return nil, false
	}
	name := selName(c.Fun)
	perm := func(i int) bool {
		if len(c.Args) <= i || t.src(c.Args[i]) != "os.ModePerm" {
			t.fail("%s: the permission argument must be os.ModePerm", name)
			return false
		}
		return true
	}
	switch name {
	case "os.ReadFile":
		if len(c.Args) != 1 || !t.needFS(name) {
			return nil, t.err != nil
		}
		p, ok := t.textArg(c.Args[0], name)
		if !ok {
			return nil, true
		}
		return &fxRes{call: ioNS + "readFile io " + t.fsx() + " " + p, results: []*ty{tText, tErr}}, true
	case "os.MkdirAll":
		if len(c.Args) != 2 || !perm(1) || !t.needRW(name) {
			return nil, true
		}
		p, ok := t.textArg(c.Args[0], name)
		if !ok {
			return nil, true
		}
		return &fxRes{call: ioNS + "mkdirAll io " + t.fsx() + " " + p, outs: []string{"fs"}, results: []*ty{tErr}}, true
	case "os.WriteFile":
		if len(c.Args) != 3 || !perm(2) || !t.needRW(name) {
			return nil, true
		}
		p, ok1 := t.textArg(c.Args[0], name)
		b, ok2 := t.textArg(c.Args[1], name)
		if !ok1 || !ok2 {
			return nil, true
		}
		return &fxRes{call: ioNS + "writeFile io " + t.fsx() + " " + p + " " + b, outs: []string{"fs"}, results: []*ty{tErr}}, true
	case "os.ReadDir":
		if len(c.Args) != 1 || !t.needFS(name) {
			return nil, t.err != nil
		}
		p, ok := t.textArg(c.Args[0], name)
		if !ok {
			return nil, true
		}
		return &fxRes{call: ioNS + "readDir io " + t.fsx() + " " + p, results: []*ty{tDirEs, tErr}}, true
	case "os.Remove":
		if len(c.Args) != 1 || !t.needRW(name) {
			return nil, true
		}
		p, ok := t.textArg(c.Args[0], name)
		if !ok {
			return nil, true
		}
		return &fxRes{call: ioNS + "remove io " + t.fsx() + " " + p, outs: []string{"fs"}, results: []*ty{tErr}}, true
	case "os.OpenFile":
		if len(c.Args) != 3 || !perm(2) {
			return nil, true
		}
		p, ok := t.textArg(c.Args[0], name)
		if !ok {
			return nil, true
		}
		switch strings.ReplaceAll(t.src(c.Args[1]), " ", "") {
		case "os.O_APPEND|os.O_CREATE|os.O_WRONLY":
			if !t.needRW(name) {
				return nil, true
			}
			return &fxRes{call: ioNS + "openAppend io " + t.fsx() + " " + p, outs: []string{"fs"}, results: []*ty{tFile, tErr}}, true
		case "os.O_RDWR":
			if !t.needFS(name) {
				return nil, true
			}
			return &fxRes{call: ioNS + "openRDWR io " + t.fsx() + " " + p, results: []*ty{tFile, tErr}}, true
		}
		t.fail("os.OpenFile with flags %s is outside the translated subset", t.src(c.Args[1]))
		return nil, true
	case "yaml.Update":
		// yaml.Update(f, path, value) rewrites the parsed file in place: the parameter returns the new file
		if p, ok := t.sp.extFns[name]; ok && len(c.Args) == 3 {
			id, ok := c.Args[0].(*ast.Ident)
			if !ok || t.lookup(id.Name) == nil || t.lookup(id.Name).k != "yfile" {
				t.fail("yaml.Update: the file must be a local variable")
				return nil, true
			}
			a, pp, ok := t.args(name, c, p.t.params)
			if !ok || pp {
				return nil, true
			}
			t.muts[id.Name] = true
			return &fxRes{call: p.name + " " + strings.Join(a, " "), outs: []string{id.Name}, results: []*ty{tErr}}, true
		}
	case "fmt.Fprintf":
		if len(c.Args) < 2 {
			return nil, false
		}
		id, ok := c.Args[0].(*ast.Ident)
		if !ok || t.lookup(id.Name) == nil || t.lookup(id.Name).k != "file" {
			return nil, false // Fprintf into a builder: handled as a statement idiom
		}
		if !t.needRW(name) {
			return nil, true
		}
		format, ok := t.stringLit(c.Args[1])
		if !ok {
			t.fail("fmt.Fprintf with a non-literal format")
			return nil, true
		}
		txt, p, ok := t.fmtConcat(format, c.Args[2:])
		if !ok {
			return nil, true
		}
		if p {
			t.fail("fmt.Fprintf operand can panic")
			return nil, true
		}
		return &fxRes{call: ioNS + "fileWrite io " + t.fsx() + " " + t.ln(id.Name) + " " + txt, outs: []string{"fs", id.Name}, results: []*ty{tInt, tErr}}, true
	case "snapshotScanner":
		if len(c.Args) != 1 {
			return nil, false
		}
		if id, ok := c.Args[0].(*ast.Ident); ok && t.lookup(id.Name) != nil && t.lookup(id.Name).k == "file" {
			if !t.needFS(name) {
				return nil, true
			}
			return &fxRes{call: ioNS + "scanFile " + t.fsx() + " " + t.ln(id.Name), outs: []string{id.Name}, results: []*ty{tScan}}, true
		}
		return nil, false
	}
	// methods of a file variable
	if id, m, _, ok := recvCall(e); ok && t.lookup(id.Name) != nil && t.lookup(id.Name).k == "file" {
		switch m {
		case "Write":
			if len(c.Args) != 1 || !t.needRW("f.Write") {
				return nil, true
			}
			b, ok := t.textArg(c.Args[0], "f.Write")
			if !ok {
				return nil, true
			}
			return &fxRes{call: ioNS + "fileWrite io " + t.fsx() + " " + t.ln(id.Name) + " " + b, outs: []string{"fs", id.Name}, results: []*ty{tInt, tErr}}, true
		case "Stat":
			if len(c.Args) != 0 || !t.needFS("f.Stat") {
				return nil, true
			}
			return &fxRes{call: ioNS + "fileStat io " + t.fsx() + " " + t.ln(id.Name), results: []*ty{tInt, tErr}}, true
		}
	}
	// a method of a package-level registry: the registry is a field of the state
	if id, m, _, ok := recvCall(e); ok && t.lookup(id.Name) == nil {
		if ps, ok := pkgState[id.Name]; ok {
			d, ok := t.funcs[t.sp.pkg+"."+ps.kind+"."+m]
			if !ok {
				t.fail("%s.%s is not translated", id.Name, m)
				return nil, true
			}
			if t.sp.fx != "st" {
				t.fail("%s.%s acts on package state, but %s is not declared fx = st", id.Name, m, t.sp.name)
				return nil, true
			}
			// the translated method takes the receiver first
			var a []string
			for i, arg := range c.Args {
				x := t.exprH(arg, d.params[i+1])
				if t.err != nil {
					return nil, true
				}
				if !x.t.eq(d.params[i+1]) || x.p {
					t.fail("%s.%s: argument %d", id.Name, m, i+1)
					return nil, true
				}
				a = append(a, x.s)
			}
			return &fxRes{call: d.ns() + leanDefName(ps.kind+"."+m) + " st." + ps.field + " " + strings.Join(a, " "),
				outs: []string{"st:" + ps.field}, results: d.rets, partial: d.partial}, true
		}
	}
	if d, fname, ok := t.crossPkg(c.Fun); ok && (d.spec.fx != "" || len(d.spec.inout) > 0) {
		return t.fxTranslated(fname, d, c), true
	}
	// a translated function with effects or in-out parameters
	if id, ok := c.Fun.(*ast.Ident); ok && t.lookup(id.Name) == nil {
		if d, ok := t.funcs[t.sp.pkg+"."+id.Name]; ok && (d.spec.fx != "" || len(d.spec.inout) > 0) {
			return t.fxTranslated(id.Name, d, c), true
		}
	}
	return nil, false
}

func (t *ftr) fxTranslated(name string, d *doneFn, c *ast.CallExpr) *fxRes {
	var lead []string
	for _, xp := range d.spec.extra {
		found := false
		for _, mine := range t.sp.extra {
			if mine.name == xp.name && mine.t.lean() == xp.t.lean() {
				found = true
			}
		}
		if !found && xp.name == "skipped" && t.sp.fx == "st" {
			// skippedTests.values is a field of the state
			lead = append(lead, "st.skipped")
			continue
		}
		if c, isFixed := t.sp.fixed[xp.name]; !found && isFixed {
			lead = append(lead, c)
			continue
		}
		if !found {
			t.fail("call of %s needs parameter %s, which %s does not have", name, xp.name, t.sp.name)
			return nil
		}
		lead = append(lead, xp.name)
	}
	if d.spec.fx == "st" {
		if t.sp.fx != "st" {
			t.fail("%s acts on the whole state, but %s is not declared fx = st", name, t.sp.name)
			return nil
		}
		lead = append([]string{"io", "st"}, lead...)
	} else if d.spec.fx != "" {
		if !t.needFS(name) || (d.spec.fx == "rw" && !t.needRW(name)) {
			return nil
		}
		if d.spec.prints {
			switch {
			case t.sp.fx == "st":
				lead = append([]string{"st.stdout"}, lead...)
			case t.sp.prints:
				lead = append([]string{"stdout"}, lead...)
			default:
				t.fail("%s prints, but %s is not declared `prints`", name, t.sp.name)
				return nil
			}
		}
		lead = append([]string{"io", t.fsx()}, lead...)
	}
	// f(&sb, …): the address of a builder passed as io.Writer is the builder itself (in-out)
	cc := *c
	cc.Args = append([]ast.Expr{}, c.Args...)
	for i, arg := range cc.Args {
		if u, ok := arg.(*ast.UnaryExpr); ok && u.Op == token.AND {
			if id, ok := u.X.(*ast.Ident); ok && t.builder[id.Name] {
				cc.Args[i] = id
			}
		}
	}
	c = &cc
	a, p, ok := t.args(name, c, d.params)
	if !ok {
		return nil
	}
	if p && (d.spec.fx != "" || t.sp.fx != "") {
		t.fail("call of %s: an argument can panic", name)
		return nil
	}
	// (p, for a callee and a caller without file-system / state effects: the arguments are pure values
	// or panic; Go evaluates them before the call, the nested actions `(← …)` are run before it too,
	// and every panic is the same `none`)
	fr := &fxRes{call: d.ns() + leanDefName(name) + " " + strings.Join(append(lead, a...), " "), partial: d.partial}
	if d.spec.fx == "rw" {
		fr.outs = append(fr.outs, "fs")
		if d.spec.prints {
			fr.outs = append(fr.outs, "stdout")
		}
	}
	if d.spec.fx == "st" {
		fr.outs = append(fr.outs, "st")
	}
	for _, io := range d.spec.inout {
		idx := -1
		for i, pn := range d.pnames {
			if pn == io {
				idx = i
			}
		}
		id, ok := c.Args[idx].(*ast.Ident)
		if idx < 0 || !ok || t.lookup(id.Name) == nil {
			t.fail("call of %s: the in-out argument must be a local variable", name)
			return nil
		}
		fr.outs = append(fr.outs, id.Name)
	}
	fr.results = d.rets
	return fr
}

// emitFx writes the call and the state updates; returns the expression for the Go results
func (t *ftr) emitFx(b *strings.Builder, ind string, fr *fxRes) ex {
	t.tmp++
	r := fmt.Sprintf("r_%d", t.tmp)
	call := fr.call
	if fr.partial {
		t.partial = true
		call = "(← " + call + ")"
	}
	fmt.Fprintf(b, "%slet %s := %s\n", ind, r, call)
	n := len(fr.outs) + len(fr.results)
	if n == 0 {
		return ex{"()", tUnit, false}
	}
	for j, o := range fr.outs {
		t.setOut(b, ind, o, proj(r, j, n))
	}
	if len(fr.results) == 0 {
		return ex{"()", tUnit, false}
	}
	if len(fr.outs) == 0 {
		return ex{r, nestedPair(fr.results), false}
	}
	return ex{r + strings.Repeat(".2", len(fr.outs)), nestedPair(fr.results), false}
}

// setOut: update the state named by an `outs` entry: "fs" (the file system of this function: the
// variable fs, or the field of st), "st" (the whole state), "st:<field>", or a local variable
func (t *ftr) setOut(b *strings.Builder, ind, o, val string) {
	switch {
	case o == "fs" && t.sp.fx == "st":
		fmt.Fprintf(b, "%sst := { st with fs := %s }\n", ind, val)
	case o == "fs":
		fmt.Fprintf(b, "%sfs := %s\n", ind, val)
	case o == "st":
		fmt.Fprintf(b, "%sst := %s\n", ind, val)
	case o == "stdout" && t.sp.fx == "st":
		fmt.Fprintf(b, "%sst := { st with stdout := %s }\n", ind, val)
	case o == "stdout":
		fmt.Fprintf(b, "%sstdout := %s\n", ind, val)
	case strings.HasPrefix(o, "st:"):
		fmt.Fprintf(b, "%sst := { st with %s := %s }\n", ind, o[3:], val)
	default:
		fmt.Fprintf(b, "%s%s := %s\n", ind, t.ln(o), val)
	}
}

// the package-level registries, as fields of the state
var pkgState = map[string]struct {
	field string
	kind  string
}{
	"testsRegistry":           {"reg", "syncRegistry"},
	"standaloneTestsRegistry": {"sreg", "syncStandaloneRegistry"},
}

// ioExpr: expression forms added for the effectful subset; ok = false: not one of them
func (t *ftr) ioExpr(e ast.Expr, hint *ty) (ex, bool) {
	switch e := e.(type) {
	case *ast.Ident:
		switch e.Name {
		case "nil":
			if hint != nil && hint.k == "err" {
				return ex{ioNS + "Err.nil", tErr, false}, true
			}
			if hint != nil && hint.k == "text" {
				return ex{"([] : List UInt8)", tText, false}, true
			}
			if hint != nil && hint.k == "texts" {
				return ex{"([] : List (List UInt8))", tTexts, false}, true
			}
			if hint != nil && hint.k == "merrs" {
				return ex{"([] : List GoSnaps.GoIO.MErr)", tMErrs, false}, true
			}
		case "defaultConfig":
			// Config{snapsDir: "__snapshots__"} (fact group defaultConfig: no other field is set), the
			// model's default Cfg
			if t.lookup(e.Name) == nil && t.sp.pkg == "snaps" {
				return ex{"({} : GoSnaps.Cfg)", tCfg, false}, true
			}
		case "isCI":
			if t.lookup(e.Name) == nil && t.sp.fx == "st" {
				return ex{"st.env.isCI", tBool, false}, true
			}
		case "shouldClean":
			if t.lookup(e.Name) == nil && t.sp.fx == "st" {
				return ex{"(GoSnaps.Generated.shouldClean st.env)", tBool, false}, true
			}
		case "defaultPrettyJSONOptions":
			// &pretty.Options{…}: its fields are the constants of fact group `pretty` (read from that literal)
			if t.lookup(e.Name) == nil && t.sp.pkg == "snaps" {
				if t.pkg.assignedAnywhere(e.Name) {
					t.fail("package variable %s is assigned somewhere in the package", e.Name)
					return ex{}, true
				}
				return ex{"({ width := (GoSnaps.Generated.prettyWidth : Int), indent := GoSnaps.Generated.prettyIndent, sortKeys := GoSnaps.Generated.prettySortKeys } : GoSnaps.GoIO.PrettyOpts)", tPOpts, false}, true
			}
		case "errInvalidJSON":
			if t.lookup(e.Name) == nil && t.sp.pkg == "snaps" {
				if c, ok := t.pkg.values[e.Name].(*ast.CallExpr); ok && selName(c.Fun) == "errors.New" && len(c.Args) == 1 {
					if msg, ok := t.pkg.constString(c.Args[0]); ok && !t.pkg.assignedAnywhere(e.Name) {
						return ex{"(" + ioNS + "Err.other " + bytesLit(msg) + ")", tErr, false}, true
					}
				}
			}
		case "errPathNotFound":
			if t.lookup(e.Name) == nil && t.sp.pkg == "match" {
				if c, ok := t.pkg.values[e.Name].(*ast.CallExpr); ok && selName(c.Fun) == "errors.New" && len(c.Args) == 1 {
					if msg, ok := t.pkg.constString(c.Args[0]); ok && !t.pkg.assignedAnywhere(e.Name) {
						return ex{"(" + ioNS + "Err.other " + bytesLit(msg) + ")", tErr, false}, true
					}
				}
			}
		case "errSnapNotFound":
			if t.lookup(e.Name) == nil && t.sp.pkg == "snaps" {
				if c, ok := t.pkg.values[e.Name].(*ast.CallExpr); ok && selName(c.Fun) == "errors.New" {
					return ex{ioNS + "Err.snapNotFound", tErr, false}, true
				}
			}
		}
		// a package variable defined as colors.Sprint(<colour>, <constant string>): its NO_COLOR rendering
		if t.lookup(e.Name) == nil && t.sp.pkg == "snaps" {
			if c, ok := t.pkg.values[e.Name].(*ast.CallExpr); ok && selName(c.Fun) == "colors.Sprint" && len(c.Args) == 2 {
				if _, ok := t.pkg.constString(c.Args[1]); ok && !t.pkg.assignedAnywhere(e.Name) {
					return ex{"GoSnaps.Generated.go_" + e.Name, tText, false}, true
				}
			}
		}
		// a package variable defined as []byte(<string constant>) and never assigned: an alias of the constant
		if t.lookup(e.Name) == nil && t.sp.pkg == "snaps" {
			if c, ok := t.pkg.values[e.Name].(*ast.CallExpr); ok && len(c.Args) == 1 {
				if at, ok := c.Fun.(*ast.ArrayType); ok && goType(at) == tText {
					if id, ok := c.Args[0].(*ast.Ident); ok && t.consts[id.Name] {
						if t.pkg.assignedAnywhere(e.Name) {
							t.fail("package variable %s is assigned somewhere in the package", e.Name)
							return ex{}, true
						}
						return ex{"GoSnaps.Generated.go_" + id.Name, tText, false}, true
					}
				}
			}
		}
	case *ast.SelectorExpr:
		if id, ok := e.X.(*ast.Ident); ok {
			if vt := t.lookup(id.Name); vt != nil && vt.k == "jcfgopt" {
				// a field of *JSONConfig: dereferencing nil panics (none)
				f := map[string]struct {
					lean string
					t    *ty
				}{"Width": {"width", tInt}, "Indent": {"indent", tText}, "SortKeys": {"sortKeys", tBool}}[e.Sel.Name]
				if f.lean != "" && t.pkg.structIs("JSONConfig", "Width:int,Indent:string,SortKeys:bool") {
					t.partial = true
					return ex{"(← " + t.ln(id.Name) + ")." + f.lean, f.t, true}, true
				}
			}
		}
		if id, ok := e.X.(*ast.Ident); ok {
			if vt := t.lookup(id.Name); vt != nil && vt.k == "godecls" && e.Sel.Name == "Decls" {
				return ex{t.ln(id.Name), tDecls, false}, true
			}
		}
		if id, ok := e.X.(*ast.Ident); ok && id.Name == "difflib" && t.lookup("difflib") == nil {
			// the tag constants: an iota block in declaration order
			if v, ok := difflibTags[e.Sel.Name]; ok && t.difflibTagsOK() {
				return ex{fmt.Sprintf("(%d : Int)", v), tInt, false}, true
			}
		}
		if id, ok := e.X.(*ast.Ident); ok && id.Name == "colors" && t.lookup("colors") == nil && (t.hasExtra("nocolor") || t.sp.fixed["nocolor"] == "false") && allPkgs["colors"] != nil {
			// a function that carries the colour mode: the real escape sequence
			if v, ok := allPkgs["colors"].values[e.Sel.Name]; ok {
				if str, ok := allPkgs["colors"].constString(v); ok {
					return ex{bytesLit(str), tText, false}, true
				}
			}
		}
		if id, ok := e.X.(*ast.Ident); ok && id.Name == "colors" && t.lookup("colors") == nil {
			switch e.Sel.Name {
			case "Yellow", "Green", "Red", "Dim", "BoldWhite", "RedBg", "GreenBG", "Reddiff", "Greendiff":
				// a colour is never rendered in the NO_COLOR semantics of the translation
				return ex{"([] : List UInt8)", tText, false}, true
			}
		}
		if t.sp.fx == "st" {
			switch t.src(e) {
			case "testsRegistry.cleanup":
				return ex{"st.reg.cleanup", tMap2, false}, true
			case "standaloneTestsRegistry.cleanup":
				return ex{"st.sreg.cleanup", tMap1, false}, true
			case "skippedTests.values":
				return ex{"st.skipped", tTexts, false}, true
			case "testEvents.items":
				return ex{"st.events", tMap1, false}, true
			}
		}
	case *ast.IndexExpr:
		// testEvents[passed]: the map is keyed by the event kind, represented by the constant's name
		if k, ok := e.Index.(*ast.Ident); ok && t.lookup(k.Name) == nil {
			switch k.Name {
			case "erred", "added", "updated", "passed":
				x := t.expr(e.X)
				if t.err == nil && x.t.k == "map1" {
					return ex{"(GoSnaps.GoIO.map1Get " + x.s + " " + bytesLit(k.Name) + ")", tInt, x.p}, true
				}
			}
		}
	case *ast.FuncLit:
		// func(c *Config) { c.f = v … }: an option closure, a function Cfg → Cfg
		if e.Type.Results == nil && len(e.Type.Params.List) == 1 && len(e.Type.Params.List[0].Names) == 1 && selName(e.Type.Params.List[0].Type) == "*Config" {
			pn := e.Type.Params.List[0].Names[0].Name
			t.push()
			t.bind(pn, tCfg)
			t.muts[pn] = true
			savedRets, savedSp := t.rets, t.sp
			spc := *t.sp
			spc.inout = []string{pn}
			spc.fx = ""
			spc.recv = ""
			t.sp = &spc
			t.rets = nil
			var b strings.Builder
			fmt.Fprintf(&b, "(fun (%s : GoSnaps.Cfg) => Id.run do\n      let mut %s := %s\n", leanIdent(pn), leanIdent(pn), leanIdent(pn))
			pb := t.partial
			t.partial = false
			b.WriteString(t.block(e.Body.List, "      ", nil))
			cp := t.partial
			t.partial = pb
			fmt.Fprintf(&b, "      return %s)", leanIdent(pn))
			t.pop()
			t.rets, t.sp = savedRets, savedSp
			if cp {
				t.fail("the option closure contains an operation that can panic")
			}
			if t.err != nil {
				return ex{}, true
			}
			return ex{b.String(), &ty{k: "func", params: []*ty{tCfg}, res: tCfg}, false}, true
		}
	case *ast.StarExpr:
		// *c: the Config a pointer refers to (a copy, in value semantics the Config itself)
		if id, ok := e.X.(*ast.Ident); ok && t.lookup(id.Name) != nil && t.lookup(id.Name).k == "cfg" {
			return ex{t.ln(id.Name), tCfg, false}, true
		}
	case *ast.UnaryExpr:
		if e.Op == token.AND {
			if cl, ok := e.X.(*ast.CompositeLit); ok && t.src(cl.Type) == "pretty.Options" {
				// &pretty.Options{Width: …, Indent: …, SortKeys: …}: a fresh options value (Prefix is not set)
				parts := map[string]string{}
				p := false
				for _, el := range cl.Elts {
					kv, ok := el.(*ast.KeyValueExpr)
					if !ok {
						t.fail("pretty.Options literal with positional fields")
						return ex{}, true
					}
					f := map[string]struct {
						lean string
						t    *ty
					}{"Width": {"width", tInt}, "Indent": {"indent", tText}, "SortKeys": {"sortKeys", tBool}}[selName(kv.Key)]
					if f.lean == "" {
						t.fail("pretty.Options literal: field %s is not modelled", selName(kv.Key))
						return ex{}, true
					}
					x := t.exprH(kv.Value, f.t)
					if t.err != nil {
						return ex{}, true
					}
					if !x.t.eq(f.t) {
						t.fail("pretty.Options literal: field %s has type %s", selName(kv.Key), x.t.lean())
						return ex{}, true
					}
					p = p || x.p
					parts[f.lean] = x.s
				}
				if len(parts) != 3 {
					t.fail("pretty.Options literal does not set Width, Indent and SortKeys (zero values are not modelled)")
					return ex{}, true
				}
				return ex{"({ width := " + parts["width"] + ", indent := " + parts["indent"] + ", sortKeys := " + parts["sortKeys"] + " } : GoSnaps.GoIO.PrettyOpts)", tPOpts, p}, true
			}
			if id, ok := e.X.(*ast.Ident); ok {
				if vt := t.lookup(id.Name); vt != nil && vt.k == "bool" && hint != nil && hint.k == "optbool" {
					// &u stored in the *bool field: the option holds the value u had when it was built
					// (the variable is never assigned afterwards — checked)
					if t.muts[id.Name] {
						t.fail("&%s of a variable that is assigned", id.Name)
						return ex{}, true
					}
					return ex{"(some " + t.ln(id.Name) + ")", tOptB, false}, true
				}
				if vt := t.lookup(id.Name); vt != nil && vt.k == "cfg" {
					return ex{t.ln(id.Name), tCfg, false}, true
				}
				if id.Name == "defaultConfig" && t.lookup(id.Name) == nil && t.sp.pkg == "snaps" {
					return ex{"({} : GoSnaps.Cfg)", tCfg, false}, true
				}
			}
			if cl, ok := e.X.(*ast.CompositeLit); ok {
				switch t.src(cl.Type) {
				case "anyMatcher", "customMatcher":
					return t.ioExpr(cl, hint)
				}
			}
		}
	case *ast.CompositeLit:
		if x, ok := t.structLit(e); ok {
			return x, true
		}
		if len(e.Elts) == 0 {
			switch t.src(e.Type) {
			case "[]match.MatcherError":
				return ex{"([] : List GoSnaps.GoIO.MErr)", tMErrs, false}, true
			case "[]string":
				return ex{"([] : List (List UInt8))", tTexts, false}, true
			case "map[string]string":
				return ex{"([] : GoSnaps.GoIO.SMap)", tSMap, false}, true
			case "set":
				return ex{"([] : GoSnaps.GoIO.GoSet)", tSet, false}, true
			}
		}
	case *ast.BinaryExpr:
		if e.Op == token.EQL || e.Op == token.NEQ {
			if id, ok := e.Y.(*ast.Ident); ok && id.Name == "nil" {
				x := t.expr(e.X)
				if t.err != nil {
					return ex{}, true
				}
				if x.t.k == "err" {
					if e.Op == token.NEQ {
						return ex{"(" + x.s + ").notNil", tBool, x.p}, true
					}
					return ex{"(" + x.s + ").isNil", tBool, x.p}, true
				}
				if x.t.k == "jcfgopt" {
					if e.Op == token.NEQ {
						return ex{"(" + x.s + ").isSome", tBool, x.p}, true
					}
					return ex{"(" + x.s + ").isNone", tBool, x.p}, true
				}
				if x.t.k == "funcptr" {
					if e.Op == token.NEQ {
						return ex{"(" + x.s + ").isSome", tBool, x.p}, true
					}
					return ex{"(" + x.s + ").isNone", tBool, x.p}, true
				}
				t.fail("comparison of %s with nil", x.t.lean())
				return ex{}, true
			}
		}
	case *ast.CallExpr:
		if x, ok := t.matcherMethod(e); ok {
			return x, true
		}
		if sel, ok := e.Fun.(*ast.SelectorExpr); ok && sel.Sel.Name == "getPrettyJSONOptions" && len(e.Args) == 0 {
			// c.json.getPrettyJSONOptions(): the translated method applied to the Config's *JSONConfig (the json
			// field is not part of the model's Cfg: `jsonConfigOf c` stands for it)
			if s2, ok := sel.X.(*ast.SelectorExpr); ok && s2.Sel.Name == "json" && t.hasExtra("jsonConfigOf") {
				if id, ok := s2.X.(*ast.Ident); ok && t.lookup(id.Name) != nil && t.lookup(id.Name).k == "cfg" {
					if d := t.funcs["snaps.JSONConfig.getPrettyJSONOptions"]; d != nil {
						t.partial = true
						return ex{"(← GoSnaps.Generated.FuncsIO.JSONConfig_getPrettyJSONOptions (jsonConfigOf " + t.ln(id.Name) + "))", tPOpts, true}, true
					}
				}
			}
		}
		if d, fname, ok := t.crossPkg(e.Fun); ok && d.spec.fx == "" && len(d.spec.inout) == 0 {
			var lead []string
			for _, xp := range d.spec.extra {
				if !t.hasExtra(xp.name) {
					t.fail("call of %s needs parameter %s", fname, xp.name)
					return ex{}, true
				}
				lead = append(lead, xp.name)
			}
			a, p, ok := t.args(fname, e, d.params)
			if !ok {
				return ex{}, true
			}
			s := d.ns() + leanDefName(fname) + " " + strings.Join(append(lead, a...), " ")
			if d.partial {
				t.partial = true
				return ex{"(← " + s + ")", nestedPair(d.rets), true}, true
			}
			return ex{"(" + s + ")", nestedPair(d.rets), p}, true
		}
		if selName(e.Fun) == "difflib.NewMatcher" && len(e.Args) == 2 {
			// the matcher is determined by the two sequences; its only use is GetGroupedOpCodes
			a, b2 := t.expr(e.Args[0]), t.expr(e.Args[1])
			if t.err == nil && a.t.k == "texts" && b2.t.k == "texts" && !a.p && !b2.p {
				return ex{"(" + a.s + ", " + b2.s + ")", tSeqM, false}, true
			}
			t.fail("unsupported difflib.NewMatcher call")
			return ex{}, true
		}
		if id, m, c, ok := recvCall(e); ok && m == "GetGroupedOpCodes" && len(c.Args) == 1 {
			if vt := t.lookup(id.Name); vt != nil && vt.k == "seqm" && t.hasExtra("groupedOpCodes") {
				n := t.exprH(c.Args[0], tInt)
				if t.err == nil && n.t.k == "int" && !n.p {
					return ex{"(groupedOpCodes " + t.ln(id.Name) + ".1 " + t.ln(id.Name) + ".2 " + n.s + ")", tOpGs, false}, true
				}
			}
		}
		name := selName(e.Fun)
		if id, m, c, ok := recvCall(e); ok && t.lookup(id.Name) != nil && t.lookup(id.Name).k == "gres" && len(c.Args) == 0 {
			switch m {
			case "Exists":
				return ex{t.ln(id.Name) + ".exists", tBool, false}, true
			case "Value":
				return ex{t.ln(id.Name) + ".value", tText, false}, true
			}
		}
		switch name {
		case "gjson.GetBytes":
			if p, ok := t.sp.extFns[name]; ok && len(e.Args) == 2 {
				a, pp, ok := t.args(name, e, p.t.params)
				if ok {
					return ex{"(" + p.name + " " + strings.Join(a, " ") + ")", p.t.res, pp}, true
				}
				return ex{}, true
			}
		case "sjson.SetBytesOptions":
			// the options argument is the package variable setJSONOptions, whose fields are extracted as
			// facts (Generated.sjsonReplaceInPlace, sjsonOptimistic); the library call is a parameter
			if p, ok := t.sp.extFns[name]; ok && len(e.Args) == 4 && t.src(e.Args[3]) == "setJSONOptions" {
				cc := *e
				cc.Args = e.Args[:3]
				a, pp, ok := t.args(name, &cc, p.t.params)
				if ok {
					return ex{"(" + p.name + " " + strings.Join(a, " ") + ")", p.t.res, pp}, true
				}
				return ex{}, true
			}
		case "parser.ParseBytes":
			if p, ok := t.sp.extFns[name]; ok && len(e.Args) == 2 && t.src(e.Args[1]) == "parser.ParseComments" {
				cc := *e
				cc.Args = e.Args[:1]
				a, pp, ok := t.args(name, &cc, p.t.params)
				if ok {
					return ex{"(" + p.name + " " + strings.Join(a, " ") + ")", p.t.res, pp}, true
				}
				return ex{}, true
			}
		case "bytes.Equal":
			if len(e.Args) == 2 {
				x, y := t.expr(e.Args[0]), t.expr(e.Args[1])
				if t.err != nil {
					return ex{}, true
				}
				if x.t.k != "text" || y.t.k != "text" {
					t.fail("bytes.Equal on %s, %s", x.t.lean(), y.t.lean())
					return ex{}, true
				}
				return ex{"(" + x.s + " == " + y.s + ")", tBool, x.p || y.p}, true
			}
		case "errors.Is":
			if len(e.Args) == 2 && t.src(e.Args[1]) == "errSnapNotFound" {
				x := t.expr(e.Args[0])
				if t.err != nil {
					return ex{}, true
				}
				if x.t.k != "err" {
					t.fail("errors.Is on %s", x.t.lean())
					return ex{}, true
				}
				return ex{"(" + x.s + ").isSnapNotFound", tBool, x.p}, true
			}
		case "bytes.NewReader":
			// a reader over an in-memory text: only ever passed to snapshotScanner
			if len(e.Args) == 1 {
				x := t.expr(e.Args[0])
				if t.err == nil && x.t.k == "text" {
					return x, true
				}
			}
		case "snapshotScanner":
			if len(e.Args) == 1 {
				x := t.expr(e.Args[0])
				if t.err != nil {
					return ex{}, true
				}
				if x.t.k == "text" {
					return ex{"(" + ioNS + "Scanner.new " + x.s + ")", tScan, x.p}, true
				}
				t.fail("snapshotScanner applied to %s in expression position (a file is an effectful call)", x.t.lean())
				return ex{}, true
			}
		case "int":
			if len(e.Args) == 1 {
				x := t.exprH(e.Args[0], tInt)
				if t.err == nil && x.t.k == "int" {
					return x, true
				}
			}
		case "token.NewFileSet":
			if len(e.Args) == 0 {
				return ex{"()", tUnit, false}, true
			}
		case "parser.ParseFile":
			// parser.ParseFile(fset, path, nil, parser.ParseComments): the top-level declarations of the file
			// at `path`, or an error — a parameter (`parseFile`) of the translated function
			if len(e.Args) == 4 && t.src(e.Args[2]) == "nil" && t.src(e.Args[3]) == "parser.ParseComments" {
				fs0 := t.expr(e.Args[0])
				p := t.expr(e.Args[1])
				if t.err == nil && fs0.t.k == "unit" && p.t.k == "text" {
					for _, xp := range t.sp.extra {
						if xp.name == "parseFile" {
							return ex{"(parseFile " + p.s + ")", pairOf(tDecls, tErr), p.p}, true
						}
					}
				}
			}
			t.fail("unsupported parser.ParseFile call")
			return ex{}, true
		case "funcDecl.Name.String", "funcDecl.Name.Name":
		case "colors.Sprint":
			// NO_COLOR rendering: the text itself
			if len(e.Args) == 2 {
				x := t.expr(e.Args[1])
				if t.err == nil && x.t.k == "text" {
					return x, true
				}
			}
		case "shouldCreate", "shouldUpdate":
			if len(e.Args) == 1 && t.sp.fx == "st" {
				x := t.expr(e.Args[0])
				if t.err == nil && x.t.k == "optbool" {
					return ex{"(GoSnaps.Generated." + name + " st.env " + x.s + ")", tBool, false}, true
				}
			}
		case "prettyDiff":
			if len(e.Args) == 4 {
				a, b2, r, l := t.expr(e.Args[0]), t.expr(e.Args[1]), t.expr(e.Args[2]), t.exprH(e.Args[3], tInt)
				if t.err == nil && a.t.k == "text" && b2.t.k == "text" && r.t.k == "text" && l.t.k == "int" {
					return ex{"(" + ioNS + "prettyDiffI " + a.s + " " + b2.s + " " + r.s + " " + l.s + ")", tText, a.p || b2.p || r.p || l.p}, true
				}
			}
		case "pretty.Sprint":
			// a value of type any IS its kr/pretty rendering
			if len(e.Args) == 1 {
				x := t.expr(e.Args[0])
				if t.err == nil && x.t.k == "text" {
					return x, true
				}
			}
		case "slices.IsSortedFunc":
			if len(e.Args) == 2 && t.src(e.Args[1]) == "naturalSort" {
				x := t.expr(e.Args[0])
				if t.err == nil && x.t.k == "texts" {
					return ex{"(GoSnaps.isSortedNat " + x.s + ")", tBool, x.p}, true
				}
			}
		case "make":
			if len(e.Args) == 2 && t.src(e.Args[0]) == "set" {
				n := t.exprH(e.Args[1], tInt)
				if t.err == nil && n.t.k == "int" && !n.p {
					return ex{"([] : GoSnaps.GoIO.GoSet)", tSet, false}, true
				}
			}
			if len(e.Args) == 2 && t.src(e.Args[0]) == "[]string" {
				n := t.exprH(e.Args[1], tInt)
				if t.err == nil && n.t.k == "int" {
					return ex{"(GoSnaps.GoSem.makeTexts " + n.s + ")", tTexts, n.p}, true
				}
			}
		case "fmt.Errorf":
			// fmt.Errorf("<text>: %w", err): an error whose text is the prefix followed by err's text
			if len(e.Args) == 2 {
				if format, ok := t.stringLit(e.Args[0]); ok && strings.HasSuffix(format, "%w") && !strings.Contains(strings.TrimSuffix(format, "%w"), "%") {
					x := t.expr(e.Args[1])
					if t.err == nil && x.t.k == "err" {
						return ex{"(" + ioNS + "Err.other (" + bytesLit(strings.TrimSuffix(format, "%w")) + " ++ (" + x.s + ").text))", tErr, x.p}, true
					}
				}
			}
			t.fail("unsupported fmt.Errorf %s", t.src(e))
			return ex{}, true
		case "yaml.Unmarshal":
			// yaml.Unmarshal(doc, &out) where out is a throw-away interface{}: only the error matters
			if len(e.Args) == 2 && t.hasExtra("yamlUnmarshal") {
				if u, ok := e.Args[1].(*ast.UnaryExpr); ok && u.Op == token.AND {
					if id, ok := u.X.(*ast.Ident); ok && !t.usedElsewhere(id.Name, e) {
						x := t.expr(e.Args[0])
						if t.err == nil && x.t.k == "text" {
							return ex{"(yamlUnmarshal " + x.s + ")", tErr, x.p}, true
						}
					}
				}
			}
		case "yaml.MarshalWithOptions":
			if len(e.Args) == 2 && e.Ellipsis.IsValid() && t.src(e.Args[1]) == "yamlEncodeOptions" && t.hasExtra("yamlMarshal") {
				x := t.expr(e.Args[0])
				if t.err == nil && x.t.k == "dyn" {
					return ex{"(yamlMarshal " + x.s + ")", pairOf(tText, tErr), x.p}, true
				}
			}
		case "fmt.Sprintf":
			if len(e.Args) >= 1 {
				if format, ok := t.stringLit(e.Args[0]); ok {
					txt, p, ok := t.fmtConcat(format, e.Args[1:])
					if !ok {
						return ex{}, true
					}
					return ex{txt, tText, p}, true
				}
				// fmt.Sprintf(path, n): the format is run-time data (the standalone path); interpreted by the
				// model's Sprintf, `none` when it uses a feature outside the modelled fragment
				if len(e.Args) == 2 {
					f, n := t.expr(e.Args[0]), t.exprH(e.Args[1], tInt)
					if t.err == nil && f.t.k == "text" && n.t.k == "int" && !f.p && !n.p {
						t.partial = true
						return ex{"(← GoSnaps.GoIO.sprintfInt " + f.s + " " + n.s + ")", tText, true}, true
					}
				}
				t.fail("fmt.Sprintf with a non-literal format")
				return ex{}, true
			}
		}
		if sel, ok := e.Fun.(*ast.SelectorExpr); ok && sel.Sel.Name == "String" && len(e.Args) == 0 {
			if s2, ok := sel.X.(*ast.SelectorExpr); ok && s2.Sel.Name == "Name" {
				if id, ok := s2.X.(*ast.Ident); ok && t.lookup(id.Name) != nil && t.lookup(id.Name).k == "godecl" {
					return ex{t.ln(id.Name) + ".name", tText, false}, true
				}
			}
		}
		if id, m, c, ok := recvCall(e); ok {
			if vt := t.lookup(id.Name); vt != nil {
				switch {
				case vt.k == "funcptr" && m == "Name" && len(c.Args) == 0:
					// only reached after the nil check (a nil *Func would panic): the name
					return ex{"(" + t.ln(id.Name) + ".getD [])", tText, false}, true
				case vt.k == "dirent" && m == "IsDir" && len(c.Args) == 0:
					return ex{t.ln(id.Name) + ".isDir", tBool, false}, true
				case vt.k == "dirent" && m == "Name" && len(c.Args) == 0:
					return ex{t.ln(id.Name) + ".name", tText, false}, true
				case vt.k == "set" && m == "Has" && len(c.Args) == 1:
					x := t.expr(c.Args[0])
					if t.err == nil && x.t.k == "text" {
						return ex{"(GoSnaps.GoIO.setHas " + t.ln(id.Name) + " " + x.s + ")", tBool, x.p}, true
					}
				case vt.k == "T" && m == "Name" && len(c.Args) == 0:
					return ex{t.ln(id.Name) + ".name", tText, false}, true
				case vt.k == "scanner" && m == "Bytes" && len(c.Args) == 0, vt.k == "scanner" && m == "Text" && len(c.Args) == 0:
					return ex{t.ln(id.Name) + ".bytes", tText, false}, true
				case vt.k == "scanner" && m == "Err" && len(c.Args) == 0:
					return ex{t.ln(id.Name) + ".err", tErr, false}, true
				case vt.k == "text" && t.builder[id.Name] && (m == "String" || m == "Bytes") && len(c.Args) == 0:
					return ex{t.ln(id.Name), tText, false}, true
				case vt.k == "text" && t.builder[id.Name] && m == "Len" && len(c.Args) == 0:
					return ex{"(GoSnaps.GoSem.len " + t.ln(id.Name) + ")", tInt, false}, true
				case vt.k == "int" && m == "Size" && len(c.Args) == 0:
					// os.FileInfo is modelled by its size
					return ex{t.ln(id.Name), tInt, false}, true
				}
			}
		}
	}
	return ex{}, false
}

// ioStmt: statement forms added for the effectful subset; handled = false: not one of them
func (t *ftr) ioStmt(b *strings.Builder, ind string, st ast.Stmt, res *ty) bool {
	switch s := st.(type) {
	case *ast.DeferStmt:
		if t.isLockCall(s.Call) || t.isCloseCall(s.Call) {
			fmt.Fprintf(b, "%s-- defer %s\n", ind, t.src(s.Call))
			return true
		}
		t.stmtFail(b, ind, "unsupported defer %s", t.src(s.Call))
		return true
	case *ast.DeclStmt:
		gd, ok := s.Decl.(*ast.GenDecl)
		if !ok || gd.Tok != token.VAR {
			t.stmtFail(b, ind, "unsupported declaration")
			return true
		}
		for _, sp := range gd.Specs {
			vs := sp.(*ast.ValueSpec)
			if len(vs.Values) != 0 || vs.Type == nil {
				t.stmtFail(b, ind, "var declaration with an initialiser")
				return true
			}
			for _, n := range vs.Names {
				switch {
				case t.isBuilderType(vs.Type):
					fmt.Fprintf(b, "%slet mut %s := ([] : List UInt8)\n", ind, leanIdent(n.Name))
					t.bind(n.Name, tText)
					t.builder[n.Name] = true
				case t.src(vs.Type) == "CleanOpts" && t.pkg.structIs("CleanOpts", "Sort:bool"):
					// the zero CleanOpts: Sort = false
					t.muts[n.Name] = true
					t.define(b, ind, n.Name, ex{"false", tCOpt, false})
				case goType(vs.Type) != nil && goType(vs.Type).k == "merrs":
					t.muts[n.Name] = true
					t.define(b, ind, n.Name, ex{"([] : List GoSnaps.GoIO.MErr)", tMErrs, false})
				case goType(vs.Type) != nil && goType(vs.Type).k == "bool":
					t.define(b, ind, n.Name, ex{"false", tBool, false})
				case goType(vs.Type) != nil && goType(vs.Type).k == "int":
					t.define(b, ind, n.Name, ex{"(0 : Int)", tInt, false})
				case t.src(vs.Type) == "*runtime.Func":
					t.define(b, ind, n.Name, ex{"(none : Option (List UInt8))", tFuncP, false})
				case goType(vs.Type) != nil && goType(vs.Type).k == "text":
					t.define(b, ind, n.Name, ex{"([] : List UInt8)", tText, false})
				default:
					t.stmtFail(b, ind, "var %s %s", n.Name, t.src(vs.Type))
					return true
				}
			}
		}
		return true
	case *ast.ExprStmt:
		if t.isLockCall(s.X) || t.isCloseCall(s.X) {
			fmt.Fprintf(b, "%s-- %s\n", ind, t.src(s.X))
			return true
		}
		if c, ok := s.X.(*ast.CallExpr); ok {
			if id, ok := c.Fun.(*ast.Ident); ok {
				if ft := t.lookup(id.Name); ft != nil && ft.k == "func" && ft.res.k == "cfg" && len(ft.params) == 1 && len(c.Args) == 1 {
					// opt(&s): the option updates the Config it is given
					if u, ok := c.Args[0].(*ast.UnaryExpr); ok && u.Op == token.AND {
						if v, ok := u.X.(*ast.Ident); ok && t.lookup(v.Name) != nil && t.lookup(v.Name).k == "cfg" {
							fmt.Fprintf(b, "%s%s := %s %s\n", ind, t.ln(v.Name), t.ln(id.Name), t.ln(v.Name))
							return true
						}
					}
					t.stmtFail(b, ind, "call of an option on something other than the address of a local Config")
					return true
				}
				if ft := t.lookup(id.Name); ft != nil && ft.k == "func" && ft.res.k == "unit" {
					a, p, ok := t.args(id.Name, c, ft.params)
					if !ok {
						b.WriteString(ind + "sorry\n")
						return true
					}
					if p {
						t.stmtFail(b, ind, "argument of %s can panic", id.Name)
						return true
					}
					var capsL []string
					for _, cp := range ft.caps {
						capsL = append(capsL, t.ln(cp))
					}
					call := t.ln(id.Name) + " " + strings.Join(append(capsL, a...), " ")
					switch len(ft.caps) {
					case 0:
						fmt.Fprintf(b, "%s-- %s (no effect)\n", ind, t.src(s.X))
					case 1:
						fmt.Fprintf(b, "%s%s := %s\n", ind, capsL[0], call)
					default:
						t.tmp++
						r := fmt.Sprintf("r_%d", t.tmp)
						fmt.Fprintf(b, "%slet %s := %s\n", ind, r, call)
						for j, cp := range capsL {
							fmt.Fprintf(b, "%s%s := %s\n", ind, cp, proj(r, j, len(capsL)))
						}
					}
					return true
				}
			}
			switch selName(c.Fun) {
			case "clear":
				if len(c.Args) == 1 {
					if id, ok := c.Args[0].(*ast.Ident); ok && t.lookup(id.Name) != nil {
						switch t.lookup(id.Name).k {
						case "smap":
							fmt.Fprintf(b, "%s%s := ([] : GoSnaps.GoIO.SMap)\n", ind, t.ln(id.Name))
							return true
						case "set":
							fmt.Fprintf(b, "%s%s := ([] : GoSnaps.GoIO.GoSet)\n", ind, t.ln(id.Name))
							return true
						}
					}
				}
				t.stmtFail(b, ind, "unsupported clear")
				return true
			case "slices.SortFunc":
				// slices.SortFunc(xs, naturalSort): the model's natural sort (pdqsort is not stable; on a
				// list whose elements the comparator orders totally the result is the sorted list)
				if len(c.Args) == 2 && t.src(c.Args[1]) == "naturalSort" {
					if id, ok := c.Args[0].(*ast.Ident); ok && t.lookup(id.Name) != nil && t.lookup(id.Name).k == "texts" {
						fmt.Fprintf(b, "%s%s := GoSnaps.sortNat %s\n", ind, t.ln(id.Name), t.ln(id.Name))
						return true
					}
				}
				t.stmtFail(b, ind, "unsupported sort")
				return true
			}
		}
		if id, m, c, ok := recvCall(s.X); ok {
			vt := t.lookup(id.Name)
			if vt != nil && vt.k == "text" && t.builder[id.Name] {
				nm := t.ln(id.Name)
				switch m {
				case "Write", "WriteString":
					if len(c.Args) == 1 {
						x := t.expr(c.Args[0])
						if t.err == nil && x.t.k == "text" {
							fmt.Fprintf(b, "%s%s := %s ++ %s\n", ind, nm, nm, x.s)
							return true
						}
					}
				case "WriteByte":
					if len(c.Args) == 1 {
						x := t.exprH(c.Args[0], tByte)
						if t.err == nil && x.t.k == "byte" {
							fmt.Fprintf(b, "%s%s := %s ++ [%s]\n", ind, nm, nm, x.s)
							return true
						}
					}
				case "Reset":
					if len(c.Args) == 0 {
						fmt.Fprintf(b, "%s%s := ([] : List UInt8)\n", ind, nm)
						return true
					}
				case "Grow":
					if len(c.Args) == 1 {
						x := t.exprH(c.Args[0], tInt)
						if t.err == nil && x.t.k == "int" && !x.p {
							fmt.Fprintf(b, "%s-- %s (capacity only)\n", ind, t.src(s.X))
							return true
						}
					}
				}
				t.stmtFail(b, ind, "unsupported builder call %s", t.src(s.X))
				return true
			}
			if vt != nil && vt.k == "file" {
				switch {
				case m == "Truncate" && len(c.Args) == 1 && t.src(c.Args[0]) == "0":
					if t.needRW("f.Truncate") {
						t.setOut(b, ind, "fs", ioNS+"fileTruncate0 "+t.fsx()+" "+t.ln(id.Name))
					}
					return true
				case m == "Seek" && len(c.Args) == 2 && t.src(c.Args[0]) == "0" && t.src(c.Args[1]) == "io.SeekStart":
					fmt.Fprintf(b, "%s%s := %sfileSeekStart %s\n", ind, t.ln(id.Name), ioNS, t.ln(id.Name))
					return true
				}
			}
		}
		if id, m, c, ok := recvCall(s.X); ok {
			if vt := t.lookup(id.Name); vt != nil && vt.k == "T" {
				tn := t.ln(id.Name)
				switch {
				case m == "Helper" && len(c.Args) == 0:
					fmt.Fprintf(b, "%s-- %s\n", ind, t.src(s.X))
					return true
				case (m == "Log" || m == "Error") && len(c.Args) == 1 && t.sp.fx == "st":
					x := t.expr(c.Args[0])
					if t.err != nil {
						b.WriteString(ind + "sorry\n")
						return true
					}
					if x.t.k == "err" {
						x = ex{"(" + x.s + ").text", tText, x.p}
					}
					if x.t.k != "text" || x.p {
						t.stmtFail(b, ind, "t.%s of %s", m, x.t.lean())
						return true
					}
					fmt.Fprintf(b, "%sst := st.t%s %s %s\n", ind, m, tn, x.s)
					return true
				case (m == "Skip" || m == "Skipf" || m == "SkipNow") && t.sp.fx == "st":
					// t.Skip(args...) / t.Skipf(format, args...) / t.SkipNow(): recorded as an event of the test;
					// the rendering of the arguments is testing's business and is not modelled
					want := map[string]int{"Skip": 1, "Skipf": 2, "SkipNow": 0}[m]
					if len(c.Args) != want || (want > 0 && !c.Ellipsis.IsValid()) {
						t.stmtFail(b, ind, "t.%s with arguments other than the wrapper's own", m)
						return true
					}
					for _, a := range c.Args {
						if id, ok := a.(*ast.Ident); !ok || t.lookup(id.Name) == nil {
							t.stmtFail(b, ind, "t.%s argument %s is not a parameter", m, t.src(a))
							return true
						}
					}
					fmt.Fprintf(b, "%sst := st.t%s %s\n", ind, m, tn)
					return true
				case m == "Cleanup" && len(c.Args) == 1 && t.sp.fx == "st":
					// t.Cleanup(func() { <registry>.reset(args) })
					if fl, ok := c.Args[0].(*ast.FuncLit); ok && len(fl.Body.List) == 1 && len(fl.Type.Params.List) == 0 {
						if es, ok := fl.Body.List[0].(*ast.ExprStmt); ok {
							if rid, rm, rc, ok := recvCall(es.X); ok && rm == "reset" && t.lookup(rid.Name) == nil {
								if ps, ok := pkgState[rid.Name]; ok {
									var a []string
									for _, arg := range rc.Args {
										x := t.expr(arg)
										if t.err != nil || x.t.k != "text" || x.p {
											t.stmtFail(b, ind, "argument of the cleanup %s", t.src(es.X))
											return true
										}
										a = append(a, x.s)
									}
									ctor := map[string]string{"reg": "resetReg", "sreg": "resetSReg"}[ps.field]
									want := map[string]int{"reg": 2, "sreg": 1}[ps.field]
									if len(a) == want {
										fmt.Fprintf(b, "%sst := st.tCleanup %s (%sCleanup.%s %s)\n", ind, tn, ioNS, ctor, strings.Join(a, " "))
										return true
									}
								}
							}
						}
					}
					t.stmtFail(b, ind, "t.Cleanup with a function other than a single registry reset")
					return true
				}
			}
			if t.lookup(id.Name) == nil && id.Name == "testEvents" && m == "register" && len(c.Args) == 1 && t.sp.fx == "st" {
				if k, ok := c.Args[0].(*ast.Ident); ok && t.lookup(k.Name) == nil {
					switch k.Name {
					case "erred", "added", "updated", "passed":
						fmt.Fprintf(b, "%sst := st.register %s\n", ind, bytesLit(k.Name))
						return true
					}
				}
				t.stmtFail(b, ind, "testEvents.register of %s", t.src(c.Args[0]))
				return true
			}
		}
		if c, ok := s.X.(*ast.CallExpr); ok && selName(c.Fun) == "fmt.Println" && len(c.Args) == 1 {
			x := t.expr(c.Args[0])
			if t.err != nil {
				b.WriteString(ind + "sorry\n")
				return true
			}
			if x.t.k == "err" {
				x = ex{"(" + x.s + ").text", tText, x.p}
			}
			if x.t.k != "text" || x.p {
				t.stmtFail(b, ind, "fmt.Println of %s", x.t.lean())
				return true
			}
			switch {
			case t.sp.fx == "st":
				fmt.Fprintf(b, "%sst := { st with stdout := st.stdout ++ %s ++ [(10 : UInt8)] }\n", ind, x.s)
			case t.sp.prints:
				fmt.Fprintf(b, "%sstdout := stdout ++ %s ++ [(10 : UInt8)]\n", ind, x.s)
			default:
				t.stmtFail(b, ind, "%s prints but is not declared `prints`", t.sp.name)
			}
			return true
		}
		if id, m, c, ok := recvCall(s.X); ok && t.lookup(id.Name) == nil && id.Name == "skippedTests" && m == "append" && len(c.Args) == 1 && t.sp.fx == "st" {
			x := t.expr(c.Args[0])
			if t.err == nil && x.t.k == "text" && !x.p {
				fmt.Fprintf(b, "%sst := { st with skipped := st.skipped ++ [%s] }\n", ind, x.s)
				return true
			}
		}
		// colors.Fprint(&sb, colour, text): NO_COLOR rendering appends the text (functions that carry a
		// `nocolor` parameter call the transliterated colors functions instead)
		if c, ok := s.X.(*ast.CallExpr); ok && selName(c.Fun) == "colors.Fprint" && len(c.Args) == 3 && !t.hasExtra("nocolor") {
			if id, ok := c.Args[0].(*ast.Ident); ok && t.builder[id.Name] {
				// the writer parameter itself
				x := t.expr(c.Args[2])
				if t.err == nil && x.t.k == "text" && !x.p {
					fmt.Fprintf(b, "%s%s := %s ++ %s\n", ind, t.ln(id.Name), t.ln(id.Name), x.s)
					return true
				}
			}
			if u, ok := c.Args[0].(*ast.UnaryExpr); ok && u.Op == token.AND {
				if id, ok := u.X.(*ast.Ident); ok && t.builder[id.Name] {
					x := t.expr(c.Args[2])
					if t.err == nil && x.t.k == "text" && !x.p {
						fmt.Fprintf(b, "%s%s := %s ++ %s\n", ind, t.ln(id.Name), t.ln(id.Name), x.s)
						return true
					}
				}
			}
			t.stmtFail(b, ind, "unsupported colors.Fprint %s", t.src(s.X))
			return true
		}
		// io.WriteString(w, s) / fmt.Fprintf(w, …) with w the writer parameter
		if c, ok := s.X.(*ast.CallExpr); ok && len(c.Args) >= 2 {
			if id, ok := c.Args[0].(*ast.Ident); ok && t.builder[id.Name] && t.lookup(id.Name) != nil {
				switch selName(c.Fun) {
				case "io.WriteString":
					if len(c.Args) == 2 {
						x := t.expr(c.Args[1])
						if t.err == nil && x.t.k == "text" && !x.p {
							fmt.Fprintf(b, "%s%s := %s ++ %s\n", ind, t.ln(id.Name), t.ln(id.Name), x.s)
							return true
						}
					}
				case "fmt.Fprintf":
					if format, ok := t.stringLit(c.Args[1]); ok {
						txt, p, ok := t.fmtConcat(format, c.Args[2:])
						if ok && !p {
							fmt.Fprintf(b, "%s%s := %s ++ %s\n", ind, t.ln(id.Name), t.ln(id.Name), txt)
							return true
						}
						if ok && p {
							// an operand can panic (s[:len(s)-1]): evaluate it first
							t.tmp++
							v := fmt.Sprintf("x_%d", t.tmp)
							fmt.Fprintf(b, "%slet %s := %s\n%s%s := %s ++ %s\n", ind, v, txt, ind, t.ln(id.Name), t.ln(id.Name), v)
							return true
						}
						return true
					}
				}
			}
		}
		// Fprintf into a builder
		if c, ok := s.X.(*ast.CallExpr); ok && selName(c.Fun) == "fmt.Fprintf" && len(c.Args) >= 2 {
			if u, ok := c.Args[0].(*ast.UnaryExpr); ok && u.Op == token.AND {
				if id, ok := u.X.(*ast.Ident); ok && t.builder[id.Name] {
					if format, ok := t.stringLit(c.Args[1]); ok {
						txt, _, ok := t.fmtConcat(format, c.Args[2:])
						if ok {
							fmt.Fprintf(b, "%s%s := %s ++ %s\n", ind, t.ln(id.Name), t.ln(id.Name), txt)
						}
						return true
					}
				}
			}
		}
		if fr, ok := t.fxCall(s.X); ok {
			if fr != nil && t.err == nil {
				t.emitFx(b, ind, fr)
			} else {
				b.WriteString(ind + "sorry\n")
			}
			return true
		}
		t.stmtFail(b, ind, "unsupported expression statement %s", t.src(s.X))
		return true
	case *ast.ForStmt:
		// for s.Scan() { … }
		if s.Init == nil && s.Post == nil && s.Cond != nil {
			if id, m, c, ok := recvCall(s.Cond); ok && m == "Scan" && len(c.Args) == 0 &&
				t.lookup(id.Name) != nil && t.lookup(id.Name).k == "scanner" {
				nm := t.ln(id.Name)
				fmt.Fprintf(b, "%sfor _ in %sScanner.fuel %s do\n", ind, ioNS, nm)
				fmt.Fprintf(b, "%s  %s := %s.scan\n", ind, nm, nm)
				fmt.Fprintf(b, "%s  if !%s.ok then break\n", ind, nm)
				b.WriteString(t.block(s.Body.List, ind+"  ", res))
				return true
			}
		}
		return false
	}
	return false
}

// rangeMap1: for k, v := range m over a map[string]int.  Go's iteration order is unspecified; the
// translation iterates in the order of the association list, and the theorems about the translated
// function have to hold for every order (they are stated on sets / up to permutation).  The key and
// value variables are assignable in Go: a value variable the body assigns becomes a `let mut` copy.
func (t *ftr) rangeMap1(s *ast.RangeStmt, xs ex, k, v, ind string, res *ty) string {
	var b strings.Builder
	whole, _ := assignedIn(s.Body)
	if k != "_" && whole[k] {
		t.stmtFail(&b, ind, "the loop body assigns the range key")
		return b.String()
	}
	if id, ok := s.X.(*ast.Ident); ok && whole[id.Name] {
		t.stmtFail(&b, ind, "the loop body assigns the ranged map")
		return b.String()
	}
	lk, lv := "_", "_"
	if k != "_" {
		lk = leanIdent(k)
		if t.lookup(k) != nil {
			t.tmp++
			lk = fmt.Sprintf("%s_%d", leanIdent(k), t.tmp)
		}
	}
	vAssigned := v != "_" && whole[v]
	if v != "_" {
		t.tmp++
		lv = fmt.Sprintf("%s_%d", leanIdent(v), t.tmp)
	}
	fmt.Fprintf(&b, "%sfor (%s, %s) in %s do\n", ind, lk, lv, xs.s)
	t.push()
	if k != "_" {
		t.bind(k, tText)
		if lk != leanIdent(k) {
			t.ren[len(t.ren)-1][k] = lk
		}
	}
	if v != "_" {
		if vAssigned {
			t.tmp++
			mv := fmt.Sprintf("%s_%d", leanIdent(v), t.tmp)
			fmt.Fprintf(&b, "%s  let mut %s := %s\n", ind, mv, lv)
			lv = mv
		}
		t.bind(v, tInt)
		t.ren[len(t.ren)-1][v] = lv
	}
	b.WriteString(t.block(s.Body.List, ind+"  ", res))
	t.pop()
	return b.String()
}

// closure: f := func(params) { body } without results.  The body may append to builders of the
// enclosing function (colors.Fprint(&s, …), s.WriteString(…)): those are passed to and returned from
// the Lean function, and a call `f(args)` becomes `s := f s args`.  Other captured variables are
// read-only (checked: the body assigns no variable it does not define).
func (t *ftr) closure(b *strings.Builder, ind, name string, fl *ast.FuncLit, ps []param) {
	if t.muts[name] {
		t.stmtFail(b, ind, "function variable %s is reassigned", name)
		return
	}
	// captured builders the body writes to
	capSet := map[string]bool{}
	ast.Inspect(fl.Body, func(n ast.Node) bool {
		c, ok := n.(*ast.CallExpr)
		if !ok {
			return true
		}
		if id, _, _, ok := recvCall(c); ok && t.builder[id.Name] {
			capSet[id.Name] = true
		}
		for _, a := range c.Args {
			if u, ok := a.(*ast.UnaryExpr); ok && u.Op == token.AND {
				if id, ok := u.X.(*ast.Ident); ok && t.builder[id.Name] {
					capSet[id.Name] = true
				}
			}
		}
		return true
	})
	var caps []string
	for c := range capSet {
		caps = append(caps, c)
	}
	sortStrings(caps)
	// the body must not assign any other captured variable
	whole, indexed := assignedIn(fl.Body)
	defined := map[string]bool{}
	for _, p := range ps {
		defined[p.name] = true
	}
	ast.Inspect(fl.Body, func(n ast.Node) bool {
		if as, ok := n.(*ast.AssignStmt); ok && as.Tok == token.DEFINE {
			for _, l := range as.Lhs {
				if id, ok := l.(*ast.Ident); ok {
					defined[id.Name] = true
				}
			}
		}
		if rs, ok := n.(*ast.RangeStmt); ok && rs.Tok == token.DEFINE {
			for _, l := range []ast.Expr{rs.Key, rs.Value} {
				if id, ok := l.(*ast.Ident); ok {
					defined[id.Name] = true
				}
			}
		}
		return true
	})
	for n := range whole {
		if !defined[n] && !strings.HasSuffix(n, "#2") && n != "?" && n != "_" {
			t.stmtFail(b, ind, "the closure %s assigns the captured variable %s", name, n)
			return
		}
	}
	if len(indexed) > 0 || whole["?"] {
		t.stmtFail(b, ind, "the closure %s has an unsupported assignment", name)
		return
	}
	var binders []string
	var pts []*ty
	for _, c := range caps {
		binders = append(binders, "("+t.ln(c)+" : List UInt8)")
	}
	// translate the body in a nested context: the captured builders are mutable locals, `return` yields them
	savedRets, savedSp := t.rets, t.sp
	spc := *t.sp
	spc.inout = caps
	if spc.fx == "rw" || spc.fx == "st" {
		spc.fx = "ro" // a closure that changed the file system or the state would need them threaded too
	}
	t.sp = &spc
	t.rets = nil
	t.push()
	var pre strings.Builder
	for _, c := range caps {
		fmt.Fprintf(&pre, "%s  let mut %s := %s\n", ind, t.ln(c), t.ln(c))
	}
	for _, p := range ps {
		t.bind(p.name, p.t)
		binders = append(binders, "("+leanIdent(p.name)+" : "+p.t.lean()+")")
		pts = append(pts, p.t)
	}
	partialBefore := t.partial
	t.partial = false
	body := t.block(fl.Body.List, ind+"  ", nil)
	closurePartial := t.partial
	t.partial = partialBefore
	t.pop()
	t.rets, t.sp = savedRets, savedSp
	if t.err != nil {
		b.WriteString(ind + "sorry\n")
		return
	}
	if closurePartial {
		t.stmtFail(b, ind, "the closure %s contains an operation that can panic", name)
		return
	}
	var capsL []string
	for _, c := range caps {
		capsL = append(capsL, t.ln(c))
	}
	fmt.Fprintf(b, "%slet %s := fun %s => Id.run do\n%s%s%s  return %s\n", ind, leanIdent(name), strings.Join(binders, " "), pre.String(), body, ind, tupleText(capsL))
	t.bind(name, &ty{k: "func", params: pts, res: tUnit, caps: caps})
}

func sortStrings(a []string) {
	for i := 1; i < len(a); i++ {
		for j := i; j > 0 && a[j] < a[j-1]; j-- {
			a[j], a[j-1] = a[j-1], a[j]
		}
	}
}

// structLit: MatcherError{Reason: …}, []MatcherError{…}, anyMatcher{…}, customMatcher{…}
func (t *ftr) structLit(e *ast.CompositeLit) (ex, bool) {
	type fld struct {
		lean string
		t    *ty
	}
	tables := map[string]struct {
		res    *ty
		fields map[string]fld
	}{
		"MatcherError":  {tMErr, map[string]fld{"Reason": {"reason", tErr}, "Matcher": {"matcher", tText}, "Path": {"path", tText}}},
		"anyMatcher":    {tAnyM, map[string]fld{"paths": {"paths", tTexts}, "placeholder": {"placeholder", tText}, "errOnMissingPath": {"errOnMissingPath", tBool}, "name": {"name", tText}}},
		"customMatcher": {tCustM, map[string]fld{"callback": {"callback", fnOf(pairOf(tText, tErr), tText)}, "errOnMissingPath": {"errOnMissingPath", tBool}, "name": {"name", tText}, "path": {"path", tText}}},
	}
	one := func(tname string, elts []ast.Expr) (ex, bool) {
		tb, ok := tables[tname]
		if !ok {
			return ex{}, false
		}
		var parts []string
		seen := map[string]bool{}
		p := false
		for _, el := range elts {
			kv, ok := el.(*ast.KeyValueExpr)
			if !ok {
				t.fail("%s literal with positional fields", tname)
				return ex{}, true
			}
			f, ok := tb.fields[selName(kv.Key)]
			if !ok {
				t.fail("%s literal: unknown field %s", tname, selName(kv.Key))
				return ex{}, true
			}
			var x ex
			if f.t.k == "func" {
				id, ok := kv.Value.(*ast.Ident)
				if !ok || t.lookup(id.Name) == nil || t.lookup(id.Name).k != "func" {
					t.fail("%s literal: field %s must be a function variable", tname, selName(kv.Key))
					return ex{}, true
				}
				x = ex{t.ln(id.Name), f.t, false}
			} else {
				x = t.exprH(kv.Value, f.t)
			}
			if t.err != nil {
				return ex{}, true
			}
			if !x.t.eq(f.t) && f.t.k != "func" {
				t.fail("%s literal: field %s has type %s", tname, selName(kv.Key), x.t.lean())
				return ex{}, true
			}
			p = p || x.p
			seen[f.lean] = true
			parts = append(parts, f.lean+" := "+x.s)
		}
		if len(seen) != len(tb.fields) {
			t.fail("%s literal does not set every field (zero values are not modelled)", tname)
			return ex{}, true
		}
		return ex{"({ " + strings.Join(parts, ", ") + " } : " + tb.res.lean() + ")", tb.res, p}, true
	}
	switch tn := t.src(e.Type); tn {
	case "MatcherError", "anyMatcher", "customMatcher":
		return one(tn, e.Elts)
	case "[]MatcherError":
		if len(e.Elts) == 0 {
			return ex{}, false
		}
		var items []string
		p := false
		for _, el := range e.Elts {
			var x ex
			if cl, ok := el.(*ast.CompositeLit); ok && cl.Type == nil {
				var ok2 bool
				x, ok2 = one("MatcherError", cl.Elts)
				if !ok2 {
					return ex{}, false
				}
			} else {
				x = t.exprH(el, tMErr)
			}
			if t.err != nil {
				return ex{}, true
			}
			if x.t.k != "merr" {
				t.fail("[]MatcherError literal element of type %s", x.t.lean())
				return ex{}, true
			}
			p = p || x.p
			items = append(items, x.s)
		}
		return ex{"[" + strings.Join(items, ", ") + "]", tMErrs, p}, true
	}
	return ex{}, false
}

// matcherMethod: x.m(args) where x is a matcher value and m a translated, non-mutating method of
// its type, or the callback field of a custom matcher
func (t *ftr) matcherMethod(e *ast.CallExpr) (ex, bool) {
	id, m, c, ok := recvCall(e)
	if !ok {
		return ex{}, false
	}
	vt := t.lookup(id.Name)
	if vt == nil {
		return ex{}, false
	}
	tname := map[string]string{"anym": "anyMatcher", "typem": "typeMatcher", "custm": "customMatcher"}[vt.k]
	if tname == "" {
		return ex{}, false
	}
	if vt.k == "custm" && m == "callback" && len(c.Args) == 1 {
		x := t.expr(c.Args[0])
		if t.err == nil && x.t.k == "text" {
			return ex{"(" + t.ln(id.Name) + ".callback " + x.s + ")", pairOf(tText, tErr), x.p}, true
		}
		return ex{}, false
	}
	d, ok := t.funcs[t.sp.pkg+"."+tname+"."+m]
	if !ok {
		return ex{}, false
	}
	if len(d.spec.inout) > 0 || d.spec.fx != "" {
		t.fail("%s.%s changes its receiver: call it as a statement", id.Name, m)
		return ex{}, true
	}
	var lead []string
	for _, xp := range d.spec.extra {
		found := false
		for _, mine := range t.sp.extra {
			if mine.name == xp.name && mine.t.lean() == xp.t.lean() {
				found = true
			}
		}
		if !found {
			t.fail("call of %s.%s needs parameter %s", tname, m, xp.name)
			return ex{}, true
		}
		lead = append(lead, xp.name)
	}
	cc := *c
	a, p, ok2 := t.args(tname+"."+m, &cc, d.params[1:])
	if !ok2 {
		return ex{}, true
	}
	s := d.ns() + leanDefName(tname+"."+m) + " " + strings.Join(append(append(lead, t.ln(id.Name)), a...), " ")
	if d.partial {
		t.partial = true
		return ex{"(← " + s + ")", nestedPair(d.rets), true}, true
	}
	return ex{"(" + s + ")", nestedPair(d.rets), p}, true
}

var difflibTags = map[string]int{"OpEqual": 0, "OpInsert": 1, "OpDelete": 2, "OpReplace": 3}

// difflibTagsOK: internal/difflib still declares `OpEqual int8 = iota; OpInsert; OpDelete; OpReplace`
// in that order in one const block
func (t *ftr) difflibTagsOK() bool {
	d, ok := t.funcs["difflib.FormatRangeUnified"]
	_ = d
	if !ok || allPkgs["difflib"] == nil {
		t.fail("package difflib is not available")
		return false
	}
	for _, f := range allPkgs["difflib"].files {
		for _, dd := range f.Decls {
			gd, ok := dd.(*ast.GenDecl)
			if !ok || gd.Tok != token.CONST {
				continue
			}
			var names []string
			for _, sp := range gd.Specs {
				for _, n := range sp.(*ast.ValueSpec).Names {
					names = append(names, n.Name)
				}
			}
			if len(names) > 0 && names[0] == "OpEqual" {
				vs := gd.Specs[0].(*ast.ValueSpec)
				if strings.Join(names, ",") == "OpEqual,OpInsert,OpDelete,OpReplace" && len(vs.Values) == 1 && selName(vs.Values[0]) == "iota" {
					return true
				}
				t.fail("the tag constants of internal/difflib changed: %v", names)
				return false
			}
		}
	}
	t.fail("the tag constants of internal/difflib were not found")
	return false
}

// exprMulti: an expression in a position that receives n values
func (t *ftr) exprMulti(e ast.Expr, n int) ex {
	// d, ok := decl.(*ast.FuncDecl)
	if ta, ok := e.(*ast.TypeAssertExpr); ok && n == 2 && ta.Type != nil && t.src(ta.Type) == "*ast.FuncDecl" {
		x := t.expr(ta.X)
		if t.err == nil && x.t.k == "godecl" {
			return ex{"(" + x.s + ", " + x.s + ".isFunc)", pairOf(tDecl, tBool), false}
		}
		return t.fail("unsupported type assertion %s", t.src(e))
	}
	// v, ok := m[k]
	if ix, isIx := e.(*ast.IndexExpr); isIx && n == 2 {
		x := t.expr(ix.X)
		if t.err != nil {
			return ex{"sorry", tBad, false}
		}
		if x.t.k == "map2" || x.t.k == "map1" {
			k := t.expr(ix.Index)
			if t.err != nil {
				return ex{"sorry", tBad, false}
			}
			if k.t.k != "text" {
				return t.fail("map key of type %s", k.t.lean())
			}
			if x.t.k == "map2" {
				return ex{"((GoSnaps.GoIO.map2Inner " + x.s + " " + k.s + "), (GoSnaps.GoIO.map2Has " + x.s + " " + k.s + "))", pairOf(tMap1, tBool), x.p || k.p}
			}
			return t.fail("comma-ok read of a map[string]int is outside the translated subset")
		}
		if x.t.k == "smap" {
			k := t.expr(ix.Index)
			if t.err != nil {
				return ex{"sorry", tBad, false}
			}
			if k.t.k != "text" {
				return t.fail("map key of type %s", k.t.lean())
			}
			return ex{"((GoSnaps.GoIO.smapGet " + x.s + " " + k.s + "), (GoSnaps.GoIO.smapHas " + x.s + " " + k.s + "))", pairOf(tText, tBool), x.p || k.p}
		}
	}
	return t.expr(e)
}

// mapAssign: `recv.field[k] = v`, `recv.field[a][b] = v`, `…++` on the maps of a registry receiver.
// rhs == nil with tok == INC is the increment.
func (t *ftr) mapAssign(b *strings.Builder, ind string, ix *ast.IndexExpr, tok token.Token, rhs ast.Expr) bool {
	var keys []ast.Expr
	base := ast.Expr(ix)
	for {
		i, ok := base.(*ast.IndexExpr)
		if !ok {
			break
		}
		keys = append([]ast.Expr{i.Index}, keys...)
		base = i.X
	}
	if lid, ok := base.(*ast.Ident); ok && t.lookup(lid.Name) != nil && len(keys) == 1 && tok == token.ASSIGN {
		switch t.lookup(lid.Name).k {
		case "set":
			// s[x] = struct{}{}
			k := t.expr(keys[0])
			if t.err == nil && k.t.k == "text" && t.src(rhs) == "struct{}{}" {
				if k.p {
					// evaluate the key first (it may be a call that can panic)
					t.tmp++
					kv := fmt.Sprintf("k_%d", t.tmp)
					fmt.Fprintf(b, "%slet %s := %s\n", ind, kv, k.s)
					k.s = kv
				}
				fmt.Fprintf(b, "%s%s := GoSnaps.GoIO.setAdd %s %s\n", ind, t.ln(lid.Name), t.ln(lid.Name), k.s)
				return true
			}
			t.stmtFail(b, ind, "unsupported set assignment %s", t.src(ix))
			return true
		case "smap":
			k, v := t.expr(keys[0]), t.expr(rhs)
			if t.err == nil && k.t.k == "text" && v.t.k == "text" && !k.p && !v.p {
				fmt.Fprintf(b, "%s%s := GoSnaps.GoIO.smapSet %s %s %s\n", ind, t.ln(lid.Name), t.ln(lid.Name), k.s, v.s)
				return true
			}
			t.stmtFail(b, ind, "unsupported map assignment %s", t.src(ix))
			return true
		}
	}
	sel, ok := base.(*ast.SelectorExpr)
	if !ok {
		return false
	}
	id, ok := sel.X.(*ast.Ident)
	if !ok || t.lookup(id.Name) == nil {
		return false
	}
	rk := t.lookup(id.Name).k
	if rk != "registry" && rk != "sregistry" {
		return false
	}
	field := sel.Sel.Name
	if field != "running" && field != "cleanup" {
		t.stmtFail(b, ind, "assignment to field %s of the registry", field)
		return true
	}
	recv := t.ln(id.Name)
	m := recv + "." + field
	var ks []string
	for _, k := range keys {
		x := t.expr(k)
		if t.err != nil {
			b.WriteString(ind + "sorry\n")
			return true
		}
		if x.t.k != "text" || x.p {
			t.stmtFail(b, ind, "map key %s", t.src(k))
			return true
		}
		ks = append(ks, x.s)
	}
	set := func(val string) {
		fmt.Fprintf(b, "%s%s := { %s with %s := %s }\n", ind, recv, recv, field, val)
	}
	intVal := func() (string, bool) {
		x := t.exprH(rhs, tInt)
		if t.err != nil {
			b.WriteString(ind + "sorry\n")
			return "", false
		}
		if x.t.k != "int" || x.p {
			t.stmtFail(b, ind, "map value %s", t.src(rhs))
			return "", false
		}
		return x.s, true
	}
	switch {
	case rk == "registry" && len(ks) == 1 && tok == token.ASSIGN:
		// m[a] = make(map[string]int)
		if c, ok := rhs.(*ast.CallExpr); ok && selName(c.Fun) == "make" && len(c.Args) == 1 && t.src(c.Args[0]) == "map[string]int" {
			set("GoSnaps.GoIO.map2SetInner " + m + " " + ks[0] + " []")
			return true
		}
		t.stmtFail(b, ind, "assignment of %s to an inner map", t.src(rhs))
	case rk == "registry" && len(ks) == 2 && tok == token.INC:
		t.partial = true
		set("(← GoSnaps.GoIO.map2Inc " + m + " " + ks[0] + " " + ks[1] + ")")
	case rk == "registry" && len(ks) == 2 && tok == token.ASSIGN:
		if v, ok := intVal(); ok {
			t.partial = true
			set("(← GoSnaps.GoIO.map2Set " + m + " " + ks[0] + " " + ks[1] + " " + v + ")")
		}
	case rk == "sregistry" && len(ks) == 1 && tok == token.INC:
		set("GoSnaps.GoIO.map1Inc " + m + " " + ks[0])
	case rk == "sregistry" && len(ks) == 1 && tok == token.ASSIGN:
		if v, ok := intVal(); ok {
			set("GoSnaps.GoIO.map1Set " + m + " " + ks[0] + " " + v)
		}
	default:
		t.stmtFail(b, ind, "unsupported map assignment %s", t.src(ix))
	}
	return true
}

// structIs: is the package-level type `name` a struct with exactly the fields "a:T,b:U"?
func (p *pkgInfo) structIs(name, want string) bool {
	for _, f := range p.files {
		for _, d := range f.Decls {
			gd, ok := d.(*ast.GenDecl)
			if !ok || gd.Tok != token.TYPE {
				continue
			}
			for _, sp := range gd.Specs {
				ts := sp.(*ast.TypeSpec)
				if ts.Name.Name != name {
					continue
				}
				st, ok := ts.Type.(*ast.StructType)
				if !ok {
					return false
				}
				var got []string
				for _, fl := range st.Fields.List {
					for _, n := range fl.Names {
						tn := selName(fl.Type)
						if _, ok := fl.Type.(*ast.ArrayType); ok {
							tn = "[]"
						}
						if _, ok := fl.Type.(*ast.FuncType); ok {
							tn = ""
						}
						got = append(got, n.Name+":"+tn)
					}
				}
				return strings.Join(got, ",") == want
			}
		}
	}
	return false
}

// assignedAnywhere: is the package-level variable assigned in any function of the package?
func (p *pkgInfo) assignedAnywhere(name string) bool {
	found := false
	for _, fd := range p.funcs {
		if fd.Body == nil {
			continue
		}
		ast.Inspect(fd.Body, func(n ast.Node) bool {
			switch s := n.(type) {
			case *ast.AssignStmt:
				for _, l := range s.Lhs {
					if id, ok := l.(*ast.Ident); ok && id.Name == name && s.Tok != token.DEFINE {
						found = true
					}
					if ix, ok := l.(*ast.IndexExpr); ok {
						if id, ok := ix.X.(*ast.Ident); ok && id.Name == name {
							found = true
						}
					}
					if sel, ok := l.(*ast.SelectorExpr); ok {
						if id, ok := sel.X.(*ast.Ident); ok && id.Name == name {
							found = true
						}
					}
				}
			case *ast.UnaryExpr:
				if id, ok := s.X.(*ast.Ident); ok && s.Op == token.AND && id.Name == name {
					found = true
				}
			}
			return true
		})
	}
	return found
}

var _ = strconv.Itoa

// usedElsewhere: is the local variable `name` of the function being translated mentioned anywhere other
// than its `var` declaration and as `&name` in second position of a yaml.Unmarshal call (a throw-away
// decoding target)?
func (t *ftr) usedElsewhere(name string, _ ast.Node) bool {
	fd := t.pkg.fn(t.sp.name)
	if fd == nil || fd.Body == nil {
		return true
	}
	allowed := map[*ast.Ident]bool{}
	ast.Inspect(fd.Body, func(n ast.Node) bool {
		switch x := n.(type) {
		case *ast.ValueSpec:
			for _, id := range x.Names {
				allowed[id] = true
			}
		case *ast.CallExpr:
			if selName(x.Fun) == "yaml.Unmarshal" && len(x.Args) == 2 {
				if u, ok := x.Args[1].(*ast.UnaryExpr); ok && u.Op == token.AND {
					if id, ok := u.X.(*ast.Ident); ok {
						allowed[id] = true
					}
				}
			}
		}
		return true
	})
	used := false
	ast.Inspect(fd.Body, func(n ast.Node) bool {
		if id, ok := n.(*ast.Ident); ok && id.Name == name && !allowed[id] {
			used = true
		}
		return true
	})
	return used
}
