package main

// Primitive methods and constructors: small functions of go-snaps whose behaviour the run-time semantics
// of the transliterations (lean/GoSnaps/GoIO.lean) ASSUMES instead of transliterating — `testEvents.register`
// is `St.register`, `skippedTests.append` is an append to `St.skipped`, the registries start empty, the
// scanner is configured without a line limit, the matcher constructors set the documented defaults.  The
// assumption is tied to the source on every run by comparing the printed declaration (comments and
// formatting aside) with the text recorded for the pinned tree (prims.json): any edit of one of them is a
// broken obligation `A.fact prim <name>` of the properties that rest on it (vcheck/core.py FACT_DEPS).

import (
	"bytes"
	_ "embed"
	"encoding/json"
	"go/ast"
	"go/printer"
	"go/token"
	"os"
	"path/filepath"
	"sort"
)

//go:embed prims.json
var primsJSON []byte

// primitive -> package
var primList = map[string]string{
	"events.register":       "snaps",
	"newTestEvents":         "snaps",
	"syncSlice.append":      "snaps",
	"newSyncSlice":          "snaps",
	"set.Has":               "snaps",
	"newRegistry":           "snaps",
	"newStandaloneRegistry": "snaps",
	"snapshotScanner":       "snaps",
	"Any":                   "match",
	"Custom":                "match",
	"Type":                  "match",
	"typePlaceholder":       "match",
	"typeCheck":             "match",
	// the comparator handed to slices.SortFunc / slices.IsSortedFunc: the model's natLt is `a != b && natural.Less(a, b)`
	"naturalSort": "snaps",
}

// third-party modules that have an executable Lean MODEL (Natural.lean, Json.lean, JsonPath.lean): the model was
// written against, and is compared with, exactly this version; the module cache is immutable per version (go.sum),
// so the version required by go.mod identifies the source the model describes
var modList = []string{"github.com/maruel/natural", "github.com/tidwall/gjson", "github.com/tidwall/pretty", "github.com/tidwall/sjson"}

func modVersion(gomod, mod string) string {
	for _, l := range bytes.Split([]byte(gomod), []byte("\n")) {
		f := bytes.Fields(l)
		for i := 0; i+1 < len(f); i++ {
			if string(f[i]) == mod {
				return string(f[i+1])
			}
		}
	}
	return ""
}

func declText(p *pkgInfo, fd *ast.FuncDecl) string {
	c := *fd
	c.Doc = nil
	var b bytes.Buffer
	// a fresh FileSet position-independent rendering: comments inside the body are dropped because the
	// node is printed without its file's comment list
	if err := (&printer.Config{Mode: printer.RawFormat, Tabwidth: 1}).Fprint(&b, token.NewFileSet(), &c); err != nil {
		fail("print %s: %v", fd.Name.Name, err)
	}
	return b.String()
}

var repoRoot string

func checkPrims(F *facts, pkgs map[string]*pkgInfo, writeTo string) {
	want := map[string]string{}
	if err := json.Unmarshal(primsJSON, &want); err != nil && writeTo == "" {
		fail("prims.json: %v", err)
	}
	got := map[string]string{}
	names := make([]string, 0, len(primList))
	for n := range primList {
		names = append(names, n)
	}
	sort.Strings(names)
	for _, n := range names {
		n := n
		soft(F, "prim "+n, func() {
			p := pkgs[primList[n]]
			if p == nil {
				fail("package %s not loaded", primList[n])
			}
			got[n] = declText(p, p.fn(n))
			if writeTo == "" && got[n] != want[n] {
				fail("%s is no longer the function the run-time semantics assumes:\n%s", n, got[n])
			}
		})
	}
	gomod, _ := os.ReadFile(filepath.Join(repoRoot, "go.mod"))
	for _, m := range modList {
		m := m
		soft(F, "mod "+m, func() {
			got["mod "+m] = modVersion(string(gomod), m)
			if writeTo == "" && got["mod "+m] != want["mod "+m] {
				fail("go.mod requires %s %q, the Lean model of it describes %q", m, got["mod "+m], want["mod "+m])
			}
		})
	}
	if writeTo != "" {
		b, _ := json.MarshalIndent(got, "", " ")
		write(writeTo, string(b)+"\n")
	}
}
