// extract re-reads /repo's current sources with go/ast and regenerates the Lean files under
// lean/GoSnaps/Generated: constants the model is built from, a translation of the pure
// mode-gate functions, and structural facts (locks, file-system writers, Config writes,
// aliasing).  Standard library only.  Any construct outside the supported subset makes the
// extractor exit non-zero, which the orchestrator treats as a broken obligation.
package main

import (
	_ "embed"
	"encoding/json"
	"fmt"
	"go/ast"
	"go/parser"
	"go/token"
	"os"
	"path/filepath"
	"sort"
	"strconv"
	"strings"
)

type pkgInfo struct {
	fset  *token.FileSet
	files map[string]*ast.File // base name -> file
	funcs map[string]*ast.FuncDecl
	// package-level const/var initialisers
	values map[string]ast.Expr
	// declared types of the package-level consts/vars that have one (`name T = v`)
	vtypes map[string]ast.Expr
	// names declared in a `const` block (values also holds `var` initialisers)
	isConst map[string]bool
}

func loadPkg(dir string) *pkgInfo {
	p := &pkgInfo{fset: token.NewFileSet(), files: map[string]*ast.File{}, funcs: map[string]*ast.FuncDecl{}, values: map[string]ast.Expr{}, vtypes: map[string]ast.Expr{}, isConst: map[string]bool{}}
	ents, err := os.ReadDir(dir)
	if err != nil {
		fail("read dir %s: %v", dir, err)
	}
	for _, e := range ents {
		n := e.Name()
		if e.IsDir() || !strings.HasSuffix(n, ".go") || strings.HasSuffix(n, "_test.go") {
			continue
		}
		f, err := parser.ParseFile(p.fset, filepath.Join(dir, n), nil, parser.ParseComments)
		if err != nil {
			fail("parse %s: %v", n, err)
		}
		p.files[n] = f
		for _, d := range f.Decls {
			switch d := d.(type) {
			case *ast.FuncDecl:
				p.funcs[funcKey(d)] = d
			case *ast.GenDecl:
				for _, s := range d.Specs {
					if vs, ok := s.(*ast.ValueSpec); ok {
						for i, nm := range vs.Names {
							if i < len(vs.Values) {
								p.values[nm.Name] = vs.Values[i]
								if vs.Type != nil {
									p.vtypes[nm.Name] = vs.Type
								}
								if d.Tok == token.CONST {
									p.isConst[nm.Name] = true
								}
							}
						}
					}
				}
			}
		}
	}
	return p
}

func funcKey(d *ast.FuncDecl) string {
	if d.Recv != nil && len(d.Recv.List) == 1 {
		t := d.Recv.List[0].Type
		if s, ok := t.(*ast.StarExpr); ok {
			t = s.X
		}
		if ix, ok := t.(*ast.IndexExpr); ok {
			t = ix.X
		}
		if id, ok := t.(*ast.Ident); ok {
			return id.Name + "." + d.Name.Name
		}
	}
	return d.Name.Name
}

// softDepth > 0: we are inside a `soft` block; a failure is local to its fact group
var softDepth int

type softFail string

func fail(f string, a ...any) {
	if softDepth > 0 {
		panic(softFail(fmt.Sprintf(f, a...)))
	}
	fmt.Fprintf(os.Stderr, "extract: "+f+"\n", a...)
	os.Exit(2)
}

// soft runs one fact group.  If the source no longer has the shape the group's extraction code
// recognises (fail → panic), the failure is recorded in facts.json (`failed`), and the values of the
// group fall back to the committed defaults (tools/extract/defaults.json = the values of the pinned
// tree): the Lean model still builds, the checks of the properties that depend on the group report a
// broken obligation `A.fact <group>` (vcheck/core.py FACT_DEPS), and the correspondence tests then
// show whether the stale value still describes the code.
func soft(F *facts, group string, fn func()) {
	softDepth++
	defer func() {
		softDepth--
		if r := recover(); r != nil {
			sf, ok := r.(softFail)
			if !ok {
				// an unexpected AST shape (nil dereference, failed type assertion) inside the group
				sf = softFail(fmt.Sprint(r))
			}
			F.Failed[group] = string(sf)
			fmt.Fprintf(os.Stderr, "extract: fact group %s NOT extracted (defaults used): %s\n", group, string(sf))
		}
	}()
	fn()
}

//go:embed defaults.json
var defaultsJSON []byte

type defaultsT struct {
	Consts       map[string]string   `json:"consts"`
	Bools        map[string]bool     `json:"bools"`
	Ints         map[string]int      `json:"ints"`
	Modes        string              `json:"modes_lean"`
	Structural   string              `json:"structural_lean"`
	Locks        map[string][]string `json:"locks"`
	FsWriters    []string            `json:"fs_writers"`
	ConfigWrites []string            `json:"config_writes"`
	ModeBodies   map[string]string   `json:"modes"`
}

func loadDefaults() *defaultsT {
	d := &defaultsT{}
	if len(defaultsJSON) > 2 {
		if err := json.Unmarshal(defaultsJSON, d); err != nil {
			fail("defaults.json: %v", err)
		}
	}
	return d
}

// constString resolves a string literal or an identifier naming a package-level string
// constant/variable (possibly a concatenation).
func (p *pkgInfo) constString(e ast.Expr) (string, bool) {
	switch e := e.(type) {
	case *ast.BasicLit:
		if e.Kind == token.STRING {
			s, err := strconv.Unquote(e.Value)
			return s, err == nil
		}
	case *ast.Ident:
		if v, ok := p.values[e.Name]; ok {
			return p.constString(v)
		}
	case *ast.BinaryExpr:
		if e.Op == token.ADD {
			a, ok1 := p.constString(e.X)
			b, ok2 := p.constString(e.Y)
			return a + b, ok1 && ok2
		}
	case *ast.ParenExpr:
		return p.constString(e.X)
	}
	return "", false
}

// constInt: the value of a package-level CONSTANT declared as a negated integer literal
// (`name = -1`, `name T = -1`), of no declared type, of type int, or of type diffmatchpatch.Operation
// (an int8: the value must fit).  Non-negative literals are handled where identifiers are translated.
func (p *pkgInfo) constNegInt(name string) (int64, bool) {
	v, ok := p.values[name]
	if !ok || !p.isConst[name] {
		return 0, false
	}
	u, ok := v.(*ast.UnaryExpr)
	if !ok || u.Op != token.SUB {
		return 0, false
	}
	bl, ok := u.X.(*ast.BasicLit)
	if !ok || bl.Kind != token.INT {
		return 0, false
	}
	n, err := strconv.ParseInt(bl.Value, 0, 64)
	if err != nil {
		return 0, false
	}
	n = -n
	switch t := p.vtypes[name]; {
	case t == nil, selName(t) == "int":
		return n, true
	case selName(t) == "diffmatchpatch.Operation":
		return n, n >= -128 && n <= 127
	}
	return 0, false
}

func (p *pkgInfo) fn(name string) *ast.FuncDecl {
	f, ok := p.funcs[name]
	if !ok {
		fail("function %s not found", name)
	}
	return f
}

func selName(e ast.Expr) string {
	switch e := e.(type) {
	case *ast.Ident:
		return e.Name
	case *ast.SelectorExpr:
		return selName(e.X) + "." + e.Sel.Name
	case *ast.StarExpr:
		return "*" + selName(e.X)
	case *ast.ParenExpr:
		return selName(e.X)
	case *ast.CallExpr:
		return selName(e.Fun) + "()"
	case *ast.IndexExpr:
		return selName(e.X) + "[]"
	case *ast.UnaryExpr:
		return e.Op.String() + selName(e.X)
	}
	return "?"
}

// callsIn returns every call expression in the body of fn whose callee prints as name.
func callsIn(fn *ast.FuncDecl, name string) []*ast.CallExpr {
	var out []*ast.CallExpr
	ast.Inspect(fn.Body, func(n ast.Node) bool {
		if c, ok := n.(*ast.CallExpr); ok && selName(c.Fun) == name {
			out = append(out, c)
		}
		return true
	})
	return out
}

func leanBytes(s string) string {
	if len(s) == 0 {
		return "([] : List UInt8)"
	}
	parts := make([]string, len(s))
	for i := 0; i < len(s); i++ {
		parts[i] = strconv.Itoa(int(s[i]))
	}
	return "([" + strings.Join(parts, ", ") + "] : List UInt8)"
}

type facts struct {
	Consts       map[string]string   `json:"consts"`
	Bools        map[string]bool     `json:"bools"`
	Ints         map[string]int      `json:"ints"`
	Locks        map[string][]string `json:"locks"`
	FsWriters    []string            `json:"fs_writers"`
	ConfigWrites []string            `json:"config_writes"`
	Modes        map[string]string   `json:"modes"`
	Notes        []string            `json:"notes"`
	Funcs        map[string]string   `json:"funcs"`        // Lean text of every transliterated function (funcs.go)
	FuncsFailed  map[string]string   `json:"funcs_failed"` // functions funcs.go could not transliterate, with the reason
	Failed       map[string]string   `json:"failed"`       // fact groups whose source shape was not recognised (defaults were used), with the reason
}

func main() {
	if len(os.Args) < 3 {
		fail("usage: extract <repo> <outdir>")
	}
	repo, out := os.Args[1], os.Args[2]
	snaps := loadPkg(filepath.Join(repo, "snaps"))
	match := loadPkg(filepath.Join(repo, "match"))
	F := &facts{Consts: map[string]string{}, Bools: map[string]bool{}, Ints: map[string]int{}, Locks: map[string][]string{}, Modes: map[string]string{}, Failed: map[string]string{}}
	os.MkdirAll(out, 0o755)
	D := loadDefaults()

	extractConsts(snaps, match, F)
	// values a failed group did not produce come from the defaults
	for k, v := range D.Consts {
		if _, ok := F.Consts[k]; !ok {
			F.Consts[k] = v
		}
	}
	for k, v := range D.Bools {
		if _, ok := F.Bools[k]; !ok {
			F.Bools[k] = v
		}
	}
	for k, v := range D.Ints {
		if _, ok := F.Ints[k]; !ok {
			F.Ints[k] = v
		}
	}
	var modes, structural string
	soft(F, "modes", func() { modes = extractModes(snaps, F) })
	if _, bad := F.Failed["modes"]; bad {
		modes = D.Modes
		F.Modes = D.ModeBodies
	}
	soft(F, "structural", func() { structural = extractStructural(snaps, match, F) })
	if _, bad := F.Failed["structural"]; bad {
		structural = D.Structural
		F.Locks, F.FsWriters, F.ConfigWrites = D.Locks, D.FsWriters, D.ConfigWrites
	}
	if len(os.Args) > 3 && os.Args[3] == "-write-defaults" {
		if len(F.Failed) > 0 {
			fmt.Fprintf(os.Stderr, "extract: cannot write defaults: %v\n", F.Failed)
			os.Exit(2)
		}
		nd := defaultsT{Consts: F.Consts, Bools: F.Bools, Ints: F.Ints, Modes: modes, Structural: structural, Locks: F.Locks, FsWriters: F.FsWriters, ConfigWrites: F.ConfigWrites, ModeBodies: F.Modes}
		b, _ := json.MarshalIndent(nd, "", " ")
		write(os.Args[4], string(b)+"\n")
		return
	}

	write(filepath.Join(out, "Consts.lean"), renderConsts(F))
	write(filepath.Join(out, "Modes.lean"), modes)
	write(filepath.Join(out, "Structural.lean"), structural)
	difflib := loadPkg(filepath.Join(repo, "internal", "difflib"))
	pure, effectful := extractFuncs(map[string]*pkgInfo{"snaps": snaps, "difflib": difflib, "match": match, "colors": loadPkg(filepath.Join(repo, "internal", "colors"))}, F)
	write(filepath.Join(out, "Funcs.lean"), pure)
	write(filepath.Join(out, "FuncsIO.lean"), effectful)
	// internal/difflib/difflib.go: the matcher itself (difflibgen.go)
	write(filepath.Join(out, "DifflibGen.lean"), extractDifflib(difflib, F))
	repoRoot = repo
	if len(os.Args) > 4 && os.Args[3] == "-write-prims" {
		checkPrims(F, map[string]*pkgInfo{"snaps": snaps, "match": match}, os.Args[4])
		return
	}
	checkPrims(F, map[string]*pkgInfo{"snaps": snaps, "match": match}, "")
	b, _ := json.MarshalIndent(F, "", " ")
	write(filepath.Join(out, "facts.json"), string(b))
}

func write(path, s string) {
	if err := os.WriteFile(path, []byte(s), 0o644); err != nil {
		fail("write %s: %v", path, err)
	}
}

func mustString(p *pkgInfo, e ast.Expr, what string) string {
	s, ok := p.constString(e)
	if !ok {
		fail("%s: not a constant string (%s)", what, selName(e))
	}
	return s
}

func extractConsts(snaps, match *pkgInfo, F *facts) {
	C := F.Consts
	soft(F, "constants", func() {
		C["endSeq"] = mustString(snaps, snaps.values["endSequence"], "endSequence")
		C["snapsExt"] = mustString(snaps, snaps.values["snapsExt"], "snapsExt")
		C["newLineSymbol"] = mustString(snaps, snaps.values["newLineSymbol"], "newLineSymbol")
		C["errorSymbol"] = mustString(snaps, snaps.values["errorSymbol"], "errorSymbol")
		C["updateSymbol"] = mustString(snaps, snaps.values["updateSymbol"], "updateSymbol")
		C["skipSymbol"] = mustString(snaps, snaps.values["skipSymbol"], "skipSymbol")
		for name, v := range snaps.values {
			if str, ok := snaps.constString(v); ok {
				C["go_"+name] = str
			} else if c, ok := v.(*ast.CallExpr); ok {
				switch selName(c.Fun) {
				case "colors.Sprint":
					if str, ok := snaps.constString(c.Args[1]); ok {
						C["go_"+name] = str
					}
				case "errors.New":
					if str, ok := snaps.constString(c.Args[0]); ok {
						C["go_"+name] = str
					}
				}
			}
		}
		for _, need := range []string{"addedMsg", "updatedMsg", "skippedMsg", "errSnapNotFound", "errInvalidJSON", "arrowSymbol", "bulletSymbol", "enterSymbol", "successSymbol"} {
			if _, ok := C["go_"+need]; !ok {
				fail("package value %s not found or not constant", need)
			}
		}
	})
	soft(F, "noParamsWarning", func() {
		cs := callsIn(snaps.fn("matchSnapshot"), "colors.Sprint")
		if len(cs) != 1 {
			fail("matchSnapshot: expected one colors.Sprint (the no-params warning)")
		}
		C["go_noParamsWarning"] = mustString(snaps, cs[0].Args[1], "no-params warning")
	})
	// endSequenceByteSlice must be []byte(endSequence)
	soft(F, "endSequenceByteSlice", func() {
		if c, ok := snaps.values["endSequenceByteSlice"].(*ast.CallExpr); !ok || len(c.Args) != 1 || selName(c.Args[0]) != "endSequence" {
			fail("endSequenceByteSlice is not []byte(endSequence)")
		}
	})
	// defaultConfig{snapsDir: "..."}
	soft(F, "defaultConfig", func() {
		if cl, ok := snaps.values["defaultConfig"].(*ast.CompositeLit); ok {
			C["defaultSnapsDir"] = ""
			for _, el := range cl.Elts {
				kv, ok := el.(*ast.KeyValueExpr)
				if !ok {
					fail("defaultConfig: positional element")
				}
				k := selName(kv.Key)
				switch k {
				case "snapsDir":
					C["defaultSnapsDir"] = mustString(snaps, kv.Value, "defaultConfig.snapsDir")
				default:
					// any other pre-set default changes behaviour the model does not know
					fail("defaultConfig sets unexpected field %s", k)
				}
			}
		} else {
			fail("defaultConfig is not a composite literal")
		}
	})
	// escape / unescape: for idx, s := range ss { if s == A { ss[idx] = B } }
	esc := func(fname string) (cmp, asg string) {
		fn := snaps.fn(fname)
		n := 0
		ast.Inspect(fn.Body, func(nd ast.Node) bool {
			ifs, ok := nd.(*ast.IfStmt)
			if !ok {
				return true
			}
			be, ok := ifs.Cond.(*ast.BinaryExpr)
			if !ok || be.Op != token.EQL {
				fail("%s: condition is not an equality", fname)
			}
			cmp = mustString(snaps, be.Y, fname+" comparison")
			if len(ifs.Body.List) != 1 {
				fail("%s: unexpected body", fname)
			}
			as, ok := ifs.Body.List[0].(*ast.AssignStmt)
			if !ok || len(as.Rhs) != 1 {
				fail("%s: unexpected body", fname)
			}
			asg = mustString(snaps, as.Rhs[0], fname+" assignment")
			n++
			return true
		})
		if n != 1 {
			fail("%s: expected exactly one if statement, found %d", fname, n)
		}
		// must split and join on "\n"
		sp := callsIn(fn, "strings.Split")
		jn := callsIn(fn, "strings.Join")
		if len(sp) != 1 || len(jn) != 1 || mustString(snaps, sp[0].Args[1], "split sep") != "\n" || mustString(snaps, jn[0].Args[1], "join sep") != "\n" {
			fail("%s: not a split/join on newline", fname)
		}
		return
	}
	soft(F, "escape", func() {
		C["escapeFrom"], C["escapeTo"] = esc("escapeEndChars")
		C["unescapeFrom"], C["unescapeTo"] = esc("unescapeEndChars")
	})

	one := func(fn *ast.FuncDecl, callee string, arg int, what string) string {
		cs := callsIn(fn, callee)
		if len(cs) != 1 {
			fail("%s: expected one call of %s, found %d", what, callee, len(cs))
		}
		return mustString(snaps, cs[0].Args[arg], what)
	}
	soft(F, "addFmt", func() { C["addFmt"] = one(snaps.fn("addNewSnapshot"), "fmt.Fprintf", 1, "addNewSnapshot format") })
	soft(F, "cleanFmt", func() { C["cleanFmt"] = one(snaps.fn("examineSnaps"), "fmt.Fprintf", 1, "examineSnaps format") })
	soft(F, "idFmt", func() { C["idFmt"] = one(snaps.fn("syncRegistry.getTestID"), "fmt.Sprintf", 0, "getTestID format") })
	soft(F, "occFmt", func() {
		C["occFmt"] = one(snaps.fn("snapshotOccurrenceFMT"), "fmt.Sprintf", 0, "snapshotOccurrenceFMT format")
	})
	soft(F, "matcherErrFmt", func() {
		var fmts []string
		for _, k := range []string{"matchJSON", "matchYAML", "matchStandaloneJSON"} {
			fmts = append(fmts, one(snaps.fn(k), "fmt.Sprintf", 0, k+" matcher error format"))
		}
		if fmts[0] != fmts[1] || fmts[1] != fmts[2] {
			fail("matcher error formats differ between entry points: %q", fmts)
		}
		C["matcherErrFmt"] = fmts[0]
	})
	// getTestID (clean.go): header prefix, " - " separator
	soft(F, "getTestID", func() {
		fn := snaps.fn("getTestID")
		hp := callsIn(fn, "bytes.HasPrefix")
		ix := callsIn(fn, "bytes.Index")
		if len(hp) != 1 || len(ix) != 1 {
			fail("getTestID: unexpected shape")
		}
		lit := func(e ast.Expr) string {
			c, ok := e.(*ast.CallExpr)
			if !ok || len(c.Args) != 1 {
				fail("getTestID: expected []byte(lit)")
			}
			return mustString(snaps, c.Args[0], "getTestID literal")
		}
		C["headerPrefix"] = lit(hp[0].Args[1])
		C["idSep"] = lit(ix[0].Args[1])
	})
	// testSkipped: strings.Split(testID, " - ")[0]
	soft(F, "skipSep", func() { C["skipSep"] = one(snaps.fn("testSkipped"), "strings.Split", 1, "testSkipped separator") })
	// constructFilename: "_%d", ReplaceAll(tName, "/", "_")
	soft(F, "constructFilename", func() {
		fn := snaps.fn("constructFilename")
		ra := callsIn(fn, "strings.ReplaceAll")
		if len(ra) != 1 {
			fail("constructFilename: ReplaceAll")
		}
		C["saReplaceOld"] = mustString(snaps, ra[0].Args[1], "ReplaceAll old")
		C["saReplaceNew"] = mustString(snaps, ra[0].Args[2], "ReplaceAll new")
		// the ordinal placeholder: the only string literal of the function that contains a verb (how the
		// file name is assembled around it is pinned by the tie theorem constructFilename_tied, not here)
		var verbs []string
		ast.Inspect(fn.Body, func(nd ast.Node) bool {
			if bl, ok := nd.(*ast.BasicLit); ok && bl.Kind == token.STRING {
				if v, err := strconv.Unquote(bl.Value); err == nil && strings.Contains(v, "%") {
					verbs = append(verbs, v)
				}
			}
			return true
		})
		if len(verbs) != 1 {
			fail("constructFilename: expected one format literal, found %q", verbs)
		}
		C["saSuffix"] = verbs[0]
	})
	// MatchStandaloneJSON default extension (both entry points must agree)
	soft(F, "standaloneJSONExt", func() {
		var exts []string
		for _, k := range []string{"Config.MatchStandaloneJSON", "MatchStandaloneJSON"} {
			fn := snaps.fn(k)
			ast.Inspect(fn.Body, func(nd ast.Node) bool {
				if as, ok := nd.(*ast.AssignStmt); ok && len(as.Lhs) == 1 && strings.HasSuffix(selName(as.Lhs[0]), ".extension") {
					exts = append(exts, mustString(snaps, as.Rhs[0], "standalone json ext"))
				}
				return true
			})
		}
		if len(exts) != 2 || exts[0] != exts[1] {
			fail("MatchStandaloneJSON default extension: %v", exts)
		}
		C["saJSONExt"] = exts[0]
	})
	// defaultPrettyJSONOptions
	soft(F, "prettyOptions", func() {
		F.Bools["prettySortKeys"] = false
		C["prettyIndent"] = ""
		F.Ints["prettyWidth"] = 0
		C["prettyPrefix"] = ""
		u, ok := snaps.values["defaultPrettyJSONOptions"].(*ast.UnaryExpr)
		if !ok {
			fail("defaultPrettyJSONOptions shape")
		}
		cl := u.X.(*ast.CompositeLit)
		for _, el := range cl.Elts {
			kv := el.(*ast.KeyValueExpr)
			switch selName(kv.Key) {
			case "SortKeys":
				F.Bools["prettySortKeys"] = selName(kv.Value) == "true"
			case "Indent":
				C["prettyIndent"] = mustString(snaps, kv.Value, "Indent")
			case "Prefix":
				C["prettyPrefix"] = mustString(snaps, kv.Value, "Prefix")
			case "Width":
				n, err := strconv.Atoi(exprText(snaps, kv.Value))
				if err != nil {
					fail("Width not literal")
				}
				F.Ints["prettyWidth"] = n
			default:
				fail("defaultPrettyJSONOptions: unknown field %s", selName(kv.Key))
			}
		}
	})
	// setJSONOptions (match/utils.go)
	soft(F, "sjsonOptions", func() {
		F.Bools["sjsonReplaceInPlace"] = false
		F.Bools["sjsonOptimistic"] = false
		if u, ok := match.values["setJSONOptions"].(*ast.UnaryExpr); ok {
			cl := u.X.(*ast.CompositeLit)
			for _, el := range cl.Elts {
				kv := el.(*ast.KeyValueExpr)
				switch selName(kv.Key) {
				case "ReplaceInPlace":
					F.Bools["sjsonReplaceInPlace"] = selName(kv.Value) == "true"
				case "Optimistic":
					F.Bools["sjsonOptimistic"] = selName(kv.Value) == "true"
				default:
					fail("setJSONOptions: unknown field")
				}
			}
		} else if id, ok := match.values["setJSONOptions"].(*ast.Ident); ok && id.Name == "nil" {
		} else if match.values["setJSONOptions"] != nil {
			fail("setJSONOptions shape")
		}
	})
	// diff context
	soft(F, "diffContext", func() {
		if v, ok := snaps.values["context"]; ok {
			n, err := strconv.Atoi(exprText(snaps, v))
			if err != nil {
				fail("context not literal")
			}
			F.Ints["diffContext"] = n
		} else {
			fail("context const missing")
		}
	})
}

func exprText(p *pkgInfo, e ast.Expr) string {
	switch e := e.(type) {
	case *ast.BasicLit:
		return e.Value
	case *ast.BinaryExpr:
		return exprText(p, e.X) + e.Op.String() + exprText(p, e.Y)
	default:
		return selName(e)
	}
}

func renderConsts(F *facts) string {
	var b strings.Builder
	b.WriteString("-- GENERATED by tools/extract from /repo's current sources. Do not edit.\nnamespace GoSnaps.Generated\n\n")
	keys := make([]string, 0, len(F.Consts))
	for k := range F.Consts {
		keys = append(keys, k)
	}
	sort.Strings(keys)
	for _, k := range keys {
		fmt.Fprintf(&b, "-- %s = %s\ndef %s : List UInt8 := %s\n\n", k, strconv.Quote(F.Consts[k]), k, leanBytes(F.Consts[k]))
	}
	keys = keys[:0]
	for k := range F.Bools {
		keys = append(keys, k)
	}
	sort.Strings(keys)
	for _, k := range keys {
		fmt.Fprintf(&b, "def %s : Bool := %v\n\n", k, F.Bools[k])
	}
	keys = keys[:0]
	for k := range F.Ints {
		keys = append(keys, k)
	}
	sort.Strings(keys)
	for _, k := range keys {
		fmt.Fprintf(&b, "def %s : Nat := %d\n\n", k, F.Ints[k])
	}
	b.WriteString("end GoSnaps.Generated\n")
	return b.String()
}
