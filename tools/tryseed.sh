#!/bin/bash
# tryseed.sh <seeded-dir-name> <check> [tier]: apply seeded/<name>/patch.diff to a scratch worktree of
# /repo and run one check against it (VERIF_REPO); the worktree is removed afterwards.  Relocatable: uses
# the copy of the machinery this script lives in (seeds are read from there too).
HERE="$(cd "$(dirname "$0")/.." && pwd)"
NAME="$1"; CHECK="$2"; TIER="${3:-quick}"
WT="/tmp/tryseed_$(basename "$HERE")_$NAME"
git -C /repo worktree remove --force "$WT" >/dev/null 2>&1
git -C /repo worktree add --detach "$WT" HEAD -q || exit 2
( cd "$WT" && git apply "$HERE/seeded/$NAME/patch.diff" ) || { echo "patch does not apply"; git -C /repo worktree remove --force "$WT"; exit 2; }
VERIF_REPO="$WT" "$HERE/check" "$CHECK" "$TIER" 2>&1 | grep -v "^KNOWN-FINDING" | tail -${LINES_OUT:-6}
git -C /repo worktree remove --force "$WT"; rm -rf "$WT"
"$HERE/.build/extract" /repo "$HERE/lean/GoSnaps/Generated" >/dev/null 2>&1
