#!/bin/bash
# tryseed.sh <seeded-dir-name> <check> [tier]: apply /verif/seeded/<name>/patch.diff to a scratch worktree of
# /repo and run one check against it (VERIF_REPO); the worktree is removed afterwards.
NAME="$1"; CHECK="$2"; TIER="${3:-quick}"
WT="/tmp/tryseed_$NAME"
git -C /repo worktree remove --force "$WT" >/dev/null 2>&1
git -C /repo worktree add --detach "$WT" HEAD -q || exit 2
( cd "$WT" && git apply "/verif/seeded/$NAME/patch.diff" ) || { echo "patch does not apply"; exit 2; }
VERIF_REPO="$WT" /verif/check "$CHECK" "$TIER" 2>&1 | grep -v "^KNOWN-FINDING" | tail -${LINES_OUT:-6}
git -C /repo worktree remove --force "$WT"; rm -rf "$WT"
/verif/.build/extract /repo /verif/lean/GoSnaps/Generated >/dev/null 2>&1
