#!/usr/bin/env python3
"""Mutation self-test of tools/extract: run it on mutated copies of the sources and check that the
changed fact is reported (the extractor is in the trusted base; this guards against it silently
ignoring what it is supposed to read).  Exit 0 = every mutant was noticed.

With `--lean` (needs an up-to-date `lake build` of lean/): for every mutant whose effect is a changed
transliteration in Generated/Funcs.lean, additionally compile the mutated Funcs.lean against the
built project and require that the tie theorems (Props/C11.lean, Props/Tie.lean) NO LONGER check."""
import json, os, re, shutil, subprocess, sys, tempfile

ROOT = os.path.dirname(os.path.dirname(os.path.abspath(__file__)))
REPO = os.environ.get('VERIF_REPO', '/repo')
EXE = ROOT + '/.build/extract'

BASE = {}      # facts of the unmutated sources (filled in by main)


def changed(f, fn, *fragments):
    """the transliteration of fn (Generated/Funcs.lean, facts['funcs']) differs from the baseline and
    contains the given fragments; the Lean theorem <fn>_tied (Props/Tie.lean) is what then fails"""
    t = f.get('funcs', {}).get(fn)
    return t is not None and t != BASE['funcs'][fn] and all(x in t for x in fragments)


def others_same(f, *fns):
    return all(f['funcs'][k] == v for k, v in BASE['funcs'].items() if k not in fns)


def dchanged(f, fn, *gone):
    """the transliteration of a function of internal/difflib/difflib.go (Generated/DifflibGen.lean) differs
    from the baseline and no longer contains the given fragments; with --lean the mutated DifflibGen.lean
    is compiled and Props/Tie/DifflibGen.lean (finite agreement with the hand port by kernel evaluation,
    the proved ties) must then FAIL"""
    t = f.get('funcs', {}).get(fn)
    return t is not None and t != BASE['funcs'][fn] and all(x not in t for x in gone)


DIFFLIB_FNS = ['min', 'max', 'sequenceMatcher.isBJunk', 'sequenceMatcher.chainB', 'sequenceMatcher.setSeq1', 'sequenceMatcher.setSeq2',
               'sequenceMatcher.setSeqs', 'NewMatcher', 'sequenceMatcher.findLongestMatch', 'sequenceMatcher.getMatchingBlocks',
               'sequenceMatcher.getOpCodes', 'sequenceMatcher.GetGroupedOpCodes']


def drefused(f, *fns):
    """the extractor left exactly these difflib functions out (and recorded why)"""
    return all(k in f['funcs_failed'] and k not in f['funcs'] for k in fns) and \
        all(k in f['funcs'] for k in DIFFLIB_FNS if k not in fns)


MUTANTS = [
    # (name, file, old, new, expectation on the facts / exit status)
    ('lock removed from updateSnapshot', 'snaps/snapshot.go', '\t_m.Lock()\n\tdefer _m.Unlock()\n\tf, err := os.OpenFile(snapPath, os.O_RDWR', '\tf, err := os.OpenFile(snapPath, os.O_RDWR',
     lambda f, rc: rc == 0 and f['locks']['updateSnapshot'] == ['none']),
    ('terminator constant changed', 'snaps/utils.go', 'endSequence = "---"', 'endSequence = "==="',
     lambda f, rc: rc == 0 and f['consts']['endSeq'] == '==='),
    ('UPDATE_SNAPS value changed', 'snaps/utils.go', 'return updateVAR == "true"', 'return updateVAR == "yes"',
     lambda f, rc: rc == 0 and '"yes"' in f['modes']['shouldUpdate']),
    ('CI gate removed from shouldCreate', 'snaps/utils.go', 'func shouldCreate(u *bool) bool {\n\tif isCI {\n\t\treturn false\n\t}\n', 'func shouldCreate(u *bool) bool {\n',
     lambda f, rc: rc == 0 and 'isCI' not in f['modes']['shouldCreate']),
    ('write through *Config', 'snaps/matchSnapshot.go', 'func matchSnapshot(c *Config, t testingT, values ...any) {\n\tt.Helper()\n', 'func matchSnapshot(c *Config, t testingT, values ...any) {\n\tt.Helper()\n\tc.filename = "x"\n',
     lambda f, rc: rc == 0 and any('matchSnapshot' in w for w in f['config_writes'])),
    ('new file-system writer', 'snaps/snapshot.go', 'func getPrevStandaloneSnapshot(snapPath string) (string, error) {\n', 'func getPrevStandaloneSnapshot(snapPath string) (string, error) {\n\tos.Remove(snapPath + ".bak")\n',
     lambda f, rc: rc == 0 and 'getPrevStandaloneSnapshot' in f['fs_writers']),
    ('validateJSON copies its []byte input', 'snaps/matchJSON.go', '\t\treturn j, nil\n\tdefault:', '\t\treturn append([]byte(nil), j...), nil\n\tdefault:',
     lambda f, rc: rc == 0 and f['bools']['validateJSONAliases'] is False),
    ('sort flag of Clean no longer gated by CI', 'snaps/clean.go', '\t\topt.Sort && !isCI,', '\t\topt.Sort,',
     lambda f, rc: rc == 0 and f['modes']['cleanSnapsSort'].replace(' ', '') == 'sortOpt'),
    ('mode gate written with a switch (outside the translated subset)', 'snaps/utils.go', '\tif u != nil {\n\t\treturn *u\n\t}\n\n\treturn updateVAR == "true"', '\tswitch {\n\tcase u != nil:\n\t\treturn *u\n\t}\n\n\treturn updateVAR == "true"',
     lambda f, rc: rc != 0 or 'modes' in (f.get('failed') or {})),
    ('handleError not followed by return', 'snaps/matchYAML.go', '\t\terr := addNewSnapshot(testID, snapshot, snapPath)\n\t\tif err != nil {\n\t\t\thandleError(t, err)\n\t\t\treturn\n\t\t}', '\t\terr := addNewSnapshot(testID, snapshot, snapPath)\n\t\tif err != nil {\n\t\t\thandleError(t, err)\n\t\t}',
     lambda f, rc: rc == 0 and f['bools']['handleErrorReturns'] is False),
    ('constructFilename trims the extension of a user Filename too', 'snaps/snapshot.go',
     '\tif filename == "" {\n\t\tbase := filepath.Base(callerFilename)\n\t\tfilename = strings.TrimSuffix(base, filepath.Ext(base))\n',
     '\tif filename == "" {\n\t\tbase := filepath.Base(callerFilename)\n\t\tfilename = base\n',
     lambda f, rc: rc == 0 and changed(f, 'constructFilename') and others_same(f, 'constructFilename')),      # the regenerated Funcs.lean differs: checked by the Lean theorem C11.constructFilename_tied
    # --- tie by proof (tools/extract/funcs.go): the regenerated transliteration must change, or the
    # extractor must refuse a construct outside its subset
    ('validateJSON takes a json.RawMessage for encoded text (extra clause of the type switch)', 'snaps/matchJSON.go',
     '\tdefault:\n\t\treturn json.Marshal(input)\n', '\tcase json.RawMessage:\n\t\treturn j, nil\n\tdefault:\n\t\treturn json.Marshal(input)\n',
     lambda f, rc: rc == 0 and 'validateJSON' in str((f.get('failed') or {})) or (f.get('funcs', {}).get('validateJSON') != BASE['funcs']['validateJSON'])),
    ('getPrettyJSONOptions hands out the shared defaults after writing the width into them', 'snaps/snapshot.go',
     '\treturn &pretty.Options{\n\t\tWidth:    j.Width,\n', '\tdefaultPrettyJSONOptions.Width = j.Width\n\treturn &pretty.Options{\n\t\tWidth:    j.Width,\n',
     lambda f, rc: f.get('funcs', {}).get('JSONConfig.getPrettyJSONOptions') != BASE['funcs']['JSONConfig.getPrettyJSONOptions']),
    ('validateYAML stores the re-encoded document instead of the bytes it was given', 'snaps/matchYAML.go',
     '\t\treturn y, nil\n', '\t\ty, _ = yaml.Marshal(out)\n\t\treturn y, nil\n',
     lambda f, rc: f.get('funcs', {}).get('validateYAML') != BASE['funcs']['validateYAML']),
    ('testEvents.register counts without the lock (a primitive the run-time semantics assumes)', 'snaps/clean.go',
     '\te.Lock()\n\tdefer e.Unlock()\n\te.items[event]++\n', '\te.items[event]++\n',
     lambda f, rc: rc == 0 and 'prim events.register' in (f.get('failed') or {})),
    ('naturalSort reports equal for ids natural.Less does not order (the comparator the model assumes)', 'snaps/clean.go',
     '\tif natural.Less(a, b) {\n\t\treturn -1\n\t}\n\treturn 1\n', '\tif natural.Less(a, b) {\n\t\treturn -1\n\t}\n\tif natural.Less(b, a) {\n\t\treturn 1\n\t}\n\treturn 0\n',
     lambda f, rc: rc == 0 and 'prim naturalSort' in (f.get('failed') or {})),
    ('go.mod requires another version of maruel/natural than the Lean model describes', 'go.mod',
     'github.com/maruel/natural v1.1.1', 'github.com/maruel/natural v1.1.0',
     lambda f, rc: rc == 0 and 'mod github.com/maruel/natural' in (f.get('failed') or {})),
    ('match.Any no longer fails on a missing path by default', 'match/any.go',
     'errOnMissingPath: true,\n\t\tplaceholder:', 'errOnMissingPath: false,\n\t\tplaceholder:',
     lambda f, rc: rc == 0 and 'prim Any' in (f.get('failed') or {})),
    ('snapshotPath joins a relative Dir even under -trimpath', 'snaps/snapshot.go',
     '\tif !filepath.IsAbs(dir) && !isTrimBathBuild {\n', '\tif !filepath.IsAbs(dir) {\n',
     lambda f, rc: rc == 0 and changed(f, 'snapshotPath', 'if (!(GoSnaps.fpIsAbs dir)) then') and others_same(f, 'snapshotPath')),
    ('snapshotPath skips a different number of frames (opaque call no longer the declared one)', 'snaps/snapshot.go',
     'callerFilename := baseCaller(3)', 'callerFilename := baseCaller(2)',
     lambda f, rc: rc == 0 and 'snapshotPath' in f['funcs_failed'] and 'snapshotPath' not in f['funcs']),
    ('escapeEndChars writes element 0 instead of the current one', 'snaps/snapshot.go',
     '\t\tif s == endSequence {\n\t\t\tss[idx] = "/-/-/-/"', '\t\tif s == endSequence {\n\t\t\tss[0] = "/-/-/-/"',
     lambda f, rc: rc == 0 and 'escapeEndChars' in f['funcs_failed'] and 'escapeEndChars' not in f['funcs']),
    ('isNumber accepts one digit less', 'snaps/clean.go', "b[i] > '9'", "b[i] > '8'",
     lambda f, rc: rc == 0 and changed(f, 'isNumber', '(56 : UInt8)') and others_same(f, 'isNumber')),
    ('isNumber loop written as a range over bytes (outside the translated subset)', 'snaps/clean.go',
     'for i := 0; i < len(b); i++ {\n\t\tif b[i] <', 'for i := range b {\n\t\tif b[i] <',
     lambda f, rc: rc == 0 and 'isNumber' in f['funcs_failed'] and 'isNumber' not in f['funcs']),
    ('getTestID slices the number one byte early', 'snaps/clean.go', 'b[separator+3 : len(b)-1]', 'b[separator+2 : len(b)-1]',
     lambda f, rc: rc == 0 and changed(f, 'getTestID', '(separator + (2 : Int))') and others_same(f, 'getTestID')),
    ('testSkipped treats every name prefix as a parent test', 'snaps/skip.go',
     'strings.HasPrefix(testName, name+"/")', 'strings.HasPrefix(testName, name)',
     lambda f, rc: rc == 0 and changed(f, 'testSkipped', '(GoSnaps.hasPrefix testName name)') and others_same(f, 'testSkipped')),
    ('isSingleline no longer accepts a string without newline', 'snaps/diff.go',
     'return i == len(s)-1 || i == -1', 'return i == len(s)-1',
     lambda f, rc: rc == 0 and changed(f, 'isSingleline') and '(-1 : Int)' not in f['funcs']['isSingleline']),
    ('intPadding repeats a negative count (panics)', 'snaps/diff.go',
     'return strings.Repeat(" ", -diff), ""', 'return strings.Repeat(" ", diff), ""',
     lambda f, rc: rc == 0 and changed(f, 'intPadding') and '(-diff)' not in f['funcs']['intPadding']),
    ('FormatRangeUnified keeps the 1-based start for an empty range', 'internal/difflib/difflib.go',
     '\tif length == 0 {\n\t\tbeginning--\n\t}\n', '',
     lambda f, rc: rc == 0 and changed(f, 'FormatRangeUnified') and 'beginning - (1 : Int)' not in f['funcs']['FormatRangeUnified']),
    # --- singlelineDiff and its helpers (Generated/FuncsIO.lean, Props/Tie/SingleLine.lean)
    ('singlelineDiff counts an Insert chunk as a deletion', 'snaps/diff.go',
     '\t\tcase diffInsert:\n\t\t\tinserted++\n', '\t\tcase diffInsert:\n\t\t\tdeleted++\n',
     lambda f, rc: rc == 0 and changed(f, 'singlelineDiff') and 'inserted := inserted + (1 : Int)' not in f['funcs']['singlelineDiff'] and others_same(f, 'singlelineDiff')),
    ('singlelineDiff reads diffs[0] without checking the length (panics on an empty diff)', 'snaps/diff.go',
     '\tif len(diffs) == 1 && diffs[0].Type == diffEqual {\n', '\tif diffs[0].Type == diffEqual {\n',
     lambda f, rc: rc == 0 and changed(f, 'singlelineDiff') and 'GoSnaps.GoSem.len diffs' not in f['funcs']['singlelineDiff'] and others_same(f, 'singlelineDiff')),
    ('FprintBg leaves the reset sequence after the final newline', 'internal/colors/colors.go',
     '\t\tfmt.Fprintf(w, "%s%s%s%s\\n", bgColor, color, trimSuffix(s), reset)\n', '\t\tfmt.Fprintf(w, "%s%s%s%s", bgColor, color, s, reset)\n',
     lambda f, rc: rc == 0 and changed(f, 'FprintBg') and 'trimSuffix' not in f['funcs']['FprintBg'] and others_same(f, 'FprintBg', 'singlelineDiff')),      # (FprintBg can no longer panic: its caller's text changes too)
    ('singlelineDiff asks diffmatchpatch for a line-mode diff (opaque call no longer the declared one)', 'snaps/diff.go',
     'dmp.DiffMain(expected, received, false)', 'dmp.DiffMain(expected, received, true)',
     lambda f, rc: rc == 0 and 'singlelineDiff' in f['funcs_failed'] and 'singlelineDiff' not in f['funcs']),
    ('singlelineDiff leaves the switch with a break (outside the translated subset)', 'snaps/diff.go',
     '\t\tcase diffEqual:\n\t\t\tcolors.FprintBg(a, colors.RedBg,', '\t\tcase diffEqual:\n\t\t\tif diff.Text == "" {\n\t\t\t\tbreak\n\t\t\t}\n\t\t\tcolors.FprintBg(a, colors.RedBg,',
     lambda f, rc: rc == 0 and 'singlelineDiff' in f['funcs_failed'] and 'singlelineDiff' not in f['funcs']),
    ('singlelineDiff writes through a second pointer to the buffer of the - row (aliasing)', 'snaps/diff.go',
     '\tb := &bytes.Buffer{}\n', '\tb := &bytes.Buffer{}\n\talias := a\n\talias.WriteByte(\'!\')\n',
     lambda f, rc: rc == 0 and 'singlelineDiff' in f['funcs_failed'] and 'singlelineDiff' not in f['funcs']),
    # --- internal/difflib/difflib.go, the matcher itself (Generated/DifflibGen.lean, Props/Tie/DifflibGen.lean)
    ('chainB purges popular elements only above 200 lines (> for >=)', 'internal/difflib/difflib.go',
     'if m.autoJunk && n >= 200 {', 'if m.autoJunk && n > 200 {',
     lambda f, rc: rc == 0 and dchanged(f, 'sequenceMatcher.chainB', 'n >= (200 : Int)') and others_same(f, 'sequenceMatcher.chainB')),
    ('findLongestMatch prefers the LAST of several longest matches (>= for > in the tie-break)', 'internal/difflib/difflib.go',
     '\t\t\tif k > bestsize {\n', '\t\t\tif k >= bestsize {\n',
     lambda f, rc: rc == 0 and dchanged(f, 'sequenceMatcher.findLongestMatch', 'k > bestsize') and others_same(f, 'sequenceMatcher.findLongestMatch')),
    ('getOpCodes calls a pure deletion a replacement (|| for &&)', 'internal/difflib/difflib.go',
     '\t\tif i < ai && j < bj {\n\t\t\ttag = OpReplace', '\t\tif i < ai || j < bj {\n\t\t\ttag = OpReplace',
     lambda f, rc: rc == 0 and dchanged(f, 'sequenceMatcher.getOpCodes', '(decide (i < ai)) && (decide (j < bj))') and others_same(f, 'sequenceMatcher.getOpCodes')),
    ('GetGroupedOpCodes keeps n+1 lines of context after a change', 'internal/difflib/difflib.go',
     '\t\t\t\tc.Tag, i1, min(i2, i1+n),\n', '\t\t\t\tc.Tag, i1, min(i2, i1+n+1),\n',
     lambda f, rc: rc == 0 and dchanged(f, 'sequenceMatcher.GetGroupedOpCodes') and others_same(f, 'sequenceMatcher.GetGroupedOpCodes')),
    ('NewMatcher installs a junk predicate (the specialisation IsJunk == nil no longer holds)', 'internal/difflib/difflib.go',
     'm := sequenceMatcher{autoJunk: true}', 'm := sequenceMatcher{autoJunk: true, IsJunk: func(s string) bool { return s == "" }}',
     lambda f, rc: rc == 0 and drefused(f, 'sequenceMatcher.chainB', 'sequenceMatcher.setSeq2', 'sequenceMatcher.setSeqs', 'NewMatcher')),
    ('NewMatcher switches the popularity heuristic off (the specialisation autoJunk == true no longer holds)', 'internal/difflib/difflib.go',
     'm := sequenceMatcher{autoJunk: true}', 'm := sequenceMatcher{autoJunk: false}',
     lambda f, rc: rc == 0 and drefused(f, 'sequenceMatcher.chainB', 'sequenceMatcher.setSeq2', 'sequenceMatcher.setSeqs', 'NewMatcher')),
    ('chainB: a loop over a map whose result depends on the iteration order', 'internal/difflib/difflib.go',
     '\t\t\tif len(indices) > ntest {\n\t\t\t\tpopular[s] = struct{}{}\n\t\t\t}\n', '\t\t\tif len(indices) > ntest {\n\t\t\t\tpopular[s] = struct{}{}\n\t\t\t\tntest++\n\t\t\t}\n',
     lambda f, rc: rc == 0 and drefused(f, 'sequenceMatcher.chainB', 'sequenceMatcher.setSeq2', 'sequenceMatcher.setSeqs', 'NewMatcher')),
    ('findLongestMatch leaves an extension loop with a break (outside the translated subset)', 'internal/difflib/difflib.go',
     '\t\tm.a[besti+bestsize] == m.b[bestj+bestsize] {\n\t\tbestsize++\n\t}\n\n\t// Now that', '\t\tm.a[besti+bestsize] == m.b[bestj+bestsize] {\n\t\tbestsize++\n\t\tif bestsize > 1000 {\n\t\t\tbreak\n\t\t}\n\t}\n\n\t// Now that',
     lambda f, rc: rc == 0 and drefused(f, 'sequenceMatcher.findLongestMatch', 'sequenceMatcher.getMatchingBlocks', 'sequenceMatcher.getOpCodes', 'sequenceMatcher.GetGroupedOpCodes')),
    ('sjson ReplaceInPlace', 'match/utils.go', '\t\tOptimistic: true,\n', '\t\tOptimistic: true,\n\t\tReplaceInPlace: true,\n',
     lambda f, rc: rc == 0 and f['bools']['sjsonReplaceInPlace'] is True),
]


def lean_rejects(gen_dir):
    """compile gen_dir/Funcs.lean in place of the project's and re-check the tie theorems: True when
    one of them fails (the mutant is caught by proof)"""
    leandir = ROOT + '/lean'
    built = leandir + '/.lake/build/lib/lean'
    if not os.path.exists(built + '/GoSnaps/Props/Tie.olean'):
        print('extractor self-test: --lean needs `lake build` in', leandir)
        sys.exit(1)
    which = subprocess.run(['lake', 'env', 'which', 'lean'], cwd=leandir, stdout=subprocess.PIPE).stdout.decode().split()
    lean = which[-1]
    d = tempfile.mkdtemp(prefix='extlean_')
    try:
        lib = d + '/lib'
        subprocess.run(['cp', '-as', built, lib], check=True)
        for e in ('olean', 'ilean'):
            if os.path.lexists(lib + '/GoSnaps/Generated/Funcs.' + e):
                os.remove(lib + '/GoSnaps/Generated/Funcs.' + e)
        env = dict(os.environ, LEAN_PATH=lib)
        shutil.copy(gen_dir + '/Funcs.lean', d + '/Funcs.lean')
        r = subprocess.run([lean, 'Funcs.lean', '-o', lib + '/GoSnaps/Generated/Funcs.olean'], cwd=d, env=env,
                           stdout=subprocess.PIPE, stderr=subprocess.STDOUT)
        if r.returncode != 0:
            return True       # the transliteration does not even elaborate
        for f in ('GoSnaps/Props/C11.lean', 'GoSnaps/Props/Tie.lean'):
            r = subprocess.run([lean, f], cwd=leandir, env=env, stdout=subprocess.PIPE, stderr=subprocess.STDOUT)
            if r.returncode != 0:
                return True
        return False
    finally:
        shutil.rmtree(d, ignore_errors=True)


def lean_rejects_difflib(gen_dir):
    """compile gen_dir/DifflibGen.lean in place of the project's and re-check Props/Tie/DifflibGen.lean:
    True when it no longer checks (the mutant is caught by kernel evaluation or by proof)"""
    leandir = ROOT + '/lean'
    built = leandir + '/.lake/build/lib/lean'
    if not os.path.exists(built + '/GoSnaps/Props/Tie/DifflibGen.olean'):
        print('extractor self-test: --lean needs `lake build` in', leandir)
        sys.exit(1)
    lean = subprocess.run(['lake', 'env', 'which', 'lean'], cwd=leandir, stdout=subprocess.PIPE).stdout.decode().split()[-1]
    d = tempfile.mkdtemp(prefix='extlean_')
    try:
        lib = d + '/lib'
        subprocess.run(['cp', '-as', built, lib], check=True)
        for e in ('olean', 'ilean'):
            if os.path.lexists(lib + '/GoSnaps/Generated/DifflibGen.' + e):
                os.remove(lib + '/GoSnaps/Generated/DifflibGen.' + e)
        env = dict(os.environ, LEAN_PATH=lib)
        shutil.copy(gen_dir + '/DifflibGen.lean', d + '/DifflibGen.lean')
        r = subprocess.run([lean, 'DifflibGen.lean', '-o', lib + '/GoSnaps/Generated/DifflibGen.olean'], cwd=d, env=env,
                           stdout=subprocess.PIPE, stderr=subprocess.STDOUT)
        if r.returncode != 0:
            return True
        # Props/Tie/DifflibGen.lean (finite agreement by kernel evaluation, getOpCodes), then, compiled against it,
        # Props/Tie/DifflibGen2.lean (the proofs for all inputs: GetGroupedOpCodes, chainB, findLongestMatch, getMatchingBlocks)
        for mod in ('DifflibGen', 'DifflibGen2'):
            for e in ('olean', 'ilean'):
                if os.path.lexists(lib + '/GoSnaps/Props/Tie/' + mod + '.' + e):
                    os.remove(lib + '/GoSnaps/Props/Tie/' + mod + '.' + e)
            r = subprocess.run([lean, 'GoSnaps/Props/Tie/' + mod + '.lean', '-o', lib + '/GoSnaps/Props/Tie/' + mod + '.olean'],
                               cwd=leandir, env=env, stdout=subprocess.PIPE, stderr=subprocess.STDOUT)
            if r.returncode != 0:
                return True
        return False
    finally:
        shutil.rmtree(d, ignore_errors=True)


# difflib mutants the Lean re-check is not expected to notice (none: the purge threshold is now caught by the
# proof chainB_b2j_agrees of Props/Tie/DifflibGen2.lean, not only by the finite tests)
LEAN_BLIND = ()


def main():
    with_lean = '--lean' in sys.argv[1:]
    srcs = [os.path.join(ROOT, 'tools/extract', n) for n in os.listdir(ROOT + '/tools/extract') if n.endswith('.go')]
    if not os.path.exists(EXE) or any(os.path.getmtime(p) > os.path.getmtime(EXE) for p in srcs):
        os.makedirs(os.path.dirname(EXE), exist_ok=True)
        subprocess.run(['go', 'build', '-o', EXE, '.'], cwd=ROOT + '/tools/extract', check=True,
                       env=dict(os.environ, GOFLAGS='-mod=mod', GOPROXY='off', GOSUMDB='off', GOTOOLCHAIN='local'))
    bad = 0
    skipped = 0
    d = tempfile.mkdtemp(prefix='extself_')
    try:
        r = subprocess.run([EXE, REPO, d], stdout=subprocess.PIPE, stderr=subprocess.STDOUT)
        if r.returncode != 0:
            print('extractor self-test: the extractor fails on the unmutated sources:', r.stdout.decode())
            sys.exit(1)
        BASE.update(json.load(open(d + '/facts.json')))
    finally:
        shutil.rmtree(d, ignore_errors=True)
    for name, rel, old, new, ok in MUTANTS:
        d = tempfile.mkdtemp(prefix='extself_')
        try:
            for sub in ('snaps', 'match', 'internal'):
                shutil.copytree(os.path.join(REPO, sub), os.path.join(d, sub), ignore=shutil.ignore_patterns('__snapshots__', 'testdata'))
            shutil.copy(os.path.join(REPO, 'go.mod'), os.path.join(d, 'go.mod'))
            p = os.path.join(d, rel)
            src = open(p).read()
            if old not in src:
                skipped += 1      # the source no longer has this shape: the mutant does not apply
                continue
            open(p, 'w').write(src.replace(old, new, 1))
            out = os.path.join(d, 'gen')
            r = subprocess.run([EXE, d, out], stdout=subprocess.PIPE, stderr=subprocess.STDOUT)
            facts = json.load(open(out + '/facts.json')) if r.returncode == 0 and os.path.exists(out + '/facts.json') else {}
            if not ok(facts, r.returncode):
                bad += 1
                print('extractor self-test: mutant NOT noticed:', name)
            elif with_lean and 'changed' in ok.__code__.co_names and not lean_rejects(out):
                bad += 1
                print('extractor self-test: the tie theorems still check for the mutant:', name)
            elif with_lean and 'dchanged' in ok.__code__.co_names and name not in LEAN_BLIND and not lean_rejects_difflib(out):
                bad += 1
                print('extractor self-test: Props/Tie/DifflibGen.lean still checks for the mutant:', name)
        finally:
            shutil.rmtree(d, ignore_errors=True)
    print('extractor self-test: %d mutants, %d not applicable to the current source, %d not noticed' % (len(MUTANTS), skipped, bad))
    sys.exit(1 if bad else 0)


main()
