#!/usr/bin/env python3
"""Mutation self-test of tools/extract: run it on mutated copies of the sources and check that the
changed fact is reported (the extractor is in the trusted base; this guards against it silently
ignoring what it is supposed to read).  Exit 0 = every mutant was noticed."""
import json, os, re, shutil, subprocess, sys, tempfile

ROOT = os.path.dirname(os.path.dirname(os.path.abspath(__file__)))
REPO = os.environ.get('VERIF_REPO', '/repo')
EXE = ROOT + '/.build/extract'

MUTANTS = [
    # (name, file, old, new, expectation on the facts / exit status)
    ('lock removed from updateSnapshot', 'snaps/snapshot.go', '\t_m.Lock()\n\tdefer _m.Unlock()\n\tf, err := os.OpenFile(snapPath, os.O_RDWR', '\tf, err := os.OpenFile(snapPath, os.O_RDWR',
     lambda f, rc: rc == 0 and f['locks']['updateSnapshot'] == ['none']),
    ('terminator constant changed', 'snaps/utils.go', 'endSequence = "---"', 'endSequence = "==="',
     lambda f, rc: rc == 0 and f['consts']['endSeq'] == '==='),
    ('UPDATE_SNAPS value changed', 'snaps/utils.go', 'return updateVAR == "true"', 'return updateVAR == "yes"',
     lambda f, rc: rc == 0 and '"yes"' in f['modes']['shouldUpdate']),
    ('CI gate removed from shouldCreate', 'snaps/utils.go', 'func shouldCreate(u *bool) bool {\n\tif isCI {\n\t\treturn false\n\t}\n', 'func shouldCreate(u *bool) bool {\n',
     lambda f, rc: rc == 0 and 'isCI' not in f['modes']['shouldCreate']),
    ('write through *Config', 'snaps/matchSnapshot.go', 'func matchSnapshot(c *Config, t testingT, values ...any) {\n\tt.Helper()\n', 'func matchSnapshot(c *Config, t testingT, values ...any) {\n\tt.Helper()\n\tc.filename = "x"\n',
     lambda f, rc: rc == 0 and any('matchSnapshot' in w for w in f['config_writes'])),
    ('new file-system writer', 'snaps/snapshot.go', 'func getPrevStandaloneSnapshot(snapPath string) (string, error) {\n', 'func getPrevStandaloneSnapshot(snapPath string) (string, error) {\n\tos.Remove(snapPath + ".bak")\n',
     lambda f, rc: rc == 0 and 'getPrevStandaloneSnapshot' in f['fs_writers']),
    ('validateJSON copies its []byte input', 'snaps/matchJSON.go', '\t\treturn j, nil\n\tdefault:', '\t\treturn append([]byte(nil), j...), nil\n\tdefault:',
     lambda f, rc: rc == 0 and f['bools']['validateJSONAliases'] is False),
    ('sort flag of Clean no longer gated by CI', 'snaps/clean.go', '\t\topt.Sort && !isCI,', '\t\topt.Sort,',
     lambda f, rc: rc == 0 and f['modes']['cleanSnapsSort'].replace(' ', '') == 'sortOpt'),
    ('mode gate written with a switch (outside the translated subset)', 'snaps/utils.go', '\tif u != nil {\n\t\treturn *u\n\t}\n\n\treturn updateVAR == "true"', '\tswitch {\n\tcase u != nil:\n\t\treturn *u\n\t}\n\n\treturn updateVAR == "true"',
     lambda f, rc: rc != 0),
    ('handleError not followed by return', 'snaps/matchYAML.go', '\t\terr := addNewSnapshot(testID, snapshot, snapPath)\n\t\tif err != nil {\n\t\t\thandleError(t, err)\n\t\t\treturn\n\t\t}', '\t\terr := addNewSnapshot(testID, snapshot, snapPath)\n\t\tif err != nil {\n\t\t\thandleError(t, err)\n\t\t}',
     lambda f, rc: rc == 0 and f['bools']['handleErrorReturns'] is False),
    ('constructFilename trims the extension of a user Filename too', 'snaps/snapshot.go',
     '\tif filename == "" {\n\t\tbase := filepath.Base(callerFilename)\n\t\tfilename = strings.TrimSuffix(base, filepath.Ext(base))\n',
     '\tif filename == "" {\n\t\tbase := filepath.Base(callerFilename)\n\t\tfilename = base\n',
     lambda f, rc: rc == 0),      # the regenerated Funcs.lean differs: checked by the Lean theorem constructFilename_tied
    ('sjson ReplaceInPlace', 'match/utils.go', '\t\tOptimistic: true,\n', '\t\tOptimistic: true,\n\t\tReplaceInPlace: true,\n',
     lambda f, rc: rc == 0 and f['bools']['sjsonReplaceInPlace'] is True),
]


def main():
    if not os.path.exists(EXE):
        subprocess.run(['go', 'build', '-o', EXE, '.'], cwd=ROOT + '/tools/extract', check=True,
                       env=dict(os.environ, GOFLAGS='-mod=mod', GOPROXY='off', GOSUMDB='off', GOTOOLCHAIN='local'))
    bad = 0
    skipped = 0
    for name, rel, old, new, ok in MUTANTS:
        d = tempfile.mkdtemp(prefix='extself_')
        try:
            for sub in ('snaps', 'match', 'internal'):
                shutil.copytree(os.path.join(REPO, sub), os.path.join(d, sub), ignore=shutil.ignore_patterns('__snapshots__', 'testdata'))
            p = os.path.join(d, rel)
            src = open(p).read()
            if old not in src:
                skipped += 1      # the source no longer has this shape: the mutant does not apply
                continue
            open(p, 'w').write(src.replace(old, new, 1))
            out = os.path.join(d, 'gen')
            r = subprocess.run([EXE, d, out], stdout=subprocess.PIPE, stderr=subprocess.STDOUT)
            facts = json.load(open(out + '/facts.json')) if r.returncode == 0 and os.path.exists(out + '/facts.json') else {}
            if not ok(facts, r.returncode):
                bad += 1
                print('extractor self-test: mutant NOT noticed:', name)
        finally:
            shutil.rmtree(d, ignore_errors=True)
    print('extractor self-test: %d mutants, %d not applicable to the current source, %d not noticed' % (len(MUTANTS), skipped, bad))
    sys.exit(1 if bad else 0)


main()
