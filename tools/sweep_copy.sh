#!/bin/bash
C=$1; shift
cd $C && rsync -a /verif/seeded/ $C/seeded/ && tools/seedsweep.sh "$@" > /tmp/mut/sweep_$(basename $C).txt 2>&1
