#!/usr/bin/env python3
"""Regenerates /verif/MANIFEST.json from the table below (kept next to the checks so that the
claims and the machinery change together)."""
import json, os
ROOT = '/verif'
props = [json.loads(l) for l in open(ROOT + '/properties.jsonl')]

CLAIMS = {
 'C01': dict(
  technique='Lean 4 proof (framing round-trip getPrev/render, escape) + differential correspondence + record/replay search',
  text='Proof: Lean theorems (GoSnaps.Props.C01) show for every entry list, body and position that scanning a rendered file yields its logical lines, that the lookup returns exactly the stored body and line number, that an absent id is not found, that appending keeps the file a render of its entry list and that every escaped value is storable; the model is tied to /repo by constants regenerated from the source on every run and by a differential harness that runs generated record/replay histories through the real Match* code and the Lean model and compares every testingT event and every file byte. A record-then-replay oracle on the implementation (silent replay, byte-identical directory, in read-only, update and CI modes) is the search for a failing input.',
  note='Hypotheses NoShadow (known finding D9 when violated) and no CR at end of line (documented limitation). Value formatting (kr/pretty), JSON/YAML libraries are parameters. Trusted: Lean kernel, extractor, harness, orchestrator.'),
 'C02': dict(
  technique='Lean 4 proof (report non-empty iff texts differ; escape kernel) + differential correspondence + mutation-pair search incl. colour mode',
  text='Proof: Lean theorems (GoSnaps.Props.C02, C13) characterise exactly when the stored/received comparison can conflate two values (only `---` versus `/-/-/-/` lines, known finding D10) and show the NO_COLOR report is non-empty for every pair of different texts; the exact report text of the model is compared with the real prettyDiff on every mismatching call of generated histories; a mutation-pair search (12 edit operators, colours on and off, every non-updating mode) checks one Error, no Log, no write on the implementation.',
  note='Colour-mode inline highlighting (diffmatchpatch) is a parameter; its emptiness is covered by the search and by the structural fallback introduced with the fix of D3.'),
 'C03': dict(
  technique='Lean 4 proof (header injectivity for all names, registry ordinals by induction over histories, frame lemmas) + differential correspondence + slot-addressing oracle',
  text='Proof: GoSnaps.Props.C03 proves that the header "[N - k]" is injective in (N,k) for every byte string N, that the ordinal returned to the n-th call equals the number of earlier calls of the same (file,test) key for any interleaving of other keys, that cleanup resets restart at 1 while the cumulative counter keeps growing, and that a failing call consumes its ordinal; Props.C04 supplies the frame lemmas (lookup of other entries is unchanged by append and by update). The real code is run on generated multi-test, multi-file, repeated-execution histories; after every call an independent parser of the file checks that exactly slot (N,k) changed, and every event and file byte is compared with the Lean model.',
  note='NoShadow hypothesis = known finding D9; trusted base as C01.'),
 'C04': dict(
  technique='Lean 4 proof (update = render of the updated entry list; no residue; idempotent) + differential correspondence + update/readonly search',
  text='Proof: GoSnaps.Props.C04 proves update e.id b (render (pre ++ e :: post)) = render (pre ++ <e.id,b> :: post) for every file, position and new body (hence no residue of the old bytes, other entries byte-identical and in place), the lookups of the updated and of every other entry afterwards, and idempotence; each hypothesis is shown necessary by a checked counterexample. On the implementation: random subsets of changed entries in every updating mode, changed entries give exactly one `updated` log and one written file, unchanged entries no write (sentinel mtimes), then a read-only run passes without writing.',
  note='HeaderUnique hypothesis = known finding D9; CR limitation; standalone whole-file replacement is C19.'),
 'C05': dict(
  technique='Lean 4 proof over mode-gate functions TRANSLATED from the Go source on every run + exhaustive execution of the finite mode table (in-process and in 8 real-environment processes)',
  text='Proof: tools/extract translates shouldUpdate, shouldCreate, the initialiser of shouldClean and the flag expressions Clean passes into Lean on every run; GoSnaps.Props.C05 proves on that translation, for every string value of UPDATE_SNAPS, that they equal the table of the property, that on CI every gate is closed, that Update(false)/Update(true) override, that a call whose gates are closed leaves the file system untouched, and (by decide on extracted facts) that no function outside the modelled writers mutates the file system. All 360 Match* cells and 96 Clean cells, and the cells with a present entry again on snapshot files with CR LF / mixed line endings and hand-edited spacing (792 + 288 cells in all), are executed on the real code (in-process, and again in one process per real (CI, UPDATE_SNAPS) environment so the package initialisers run for real) and on the model.',
  note='ciinfo.IsCI and os.Getenv are inputs; the extractor/translator is trusted (a construct outside its Go subset fails the run).'),
 'C07': dict(
  technique='Lean 4 proof (occurrences cover every addressed ordinal; registered entries are collected and re-emitted) + differential correspondence + addressed-slot oracle',
  text='Proof: theorems about the loop-faithful Lean model of occurrences / examineSnaps (GoSnaps.Props.C07, C10) show that every ordinal 1..n of a test executed count times is registered and that a registered entry is never reported and is re-emitted with its body by any rewrite; the real Clean is run after generated processes (-count 1..3, all modes, sort on/off, stale entries at any position, decoys) and every slot addressed in the process is checked to replay the same value, and every result is compared with the model.',
  note='Headers of tests whose names do not start with Test (fuzz targets, benchmarks) used to be dropped by Clean rewrites: defect D11, repaired in /repo (fix: 2cc6cd2), regression witness replayed on every run.'),
 'C09': dict(
  technique='Lean 4 proof (no removal without update; removed = obsolete) + differential correspondence + directory-difference oracle',
  text='Proof: GoSnaps.Props.C09 shows on the model that without the update flag Clean leaves the file system unchanged (and after the repair of D5 that a sort-only rewrite keeps stale entries), that examineFiles removes only reported `.snap` names directly inside visited directories and removes nothing unless deleting is allowed; the real code is run on generated directories with stale entries, stale files, decoy files, sub-directories and unvisited directories in every mode, the set difference of the directory is compared with the stale set computed independently, and every result with the model.',
  note='-run filtering is C08. D5 and D11 were violations of this property, repaired in /repo.'),
 'C10': dict(
  technique='Lean 4 proof (scan of a rendered file returns its entries; rewrite = render of a permutation; sort is a sorted permutation, idempotent) + differential correspondence',
  text='Proof: GoSnaps.Props.C10 proves that scanning `render es` yields exactly the entries, that the rewrite loop re-emits the original frames (so survivors replay the same value), that sortNat is a permutation and, when the natural order is total on the ids, the unique sorted one (independent of the initial order, idempotent), and that a file needing neither pruning nor sorting is not written. The real Clean is compared with the model on generated files (exact bytes), an independent parser checks survivors, order and that a second Clean writes nothing; natural.Less is compared exactly through sorted outputs.',
  note='slices.SortFunc is a parameter: its result is determined only when the comparator is a total order on the ids present, which the model checks per case.'),
 'C13': dict(
  technique='Lean 4 proof of the diff engine (findLongestMatch validity, tiling, equal-only-identical, replay, hunk completeness, report empty iff identical, counts, provenance, residue, no ESC) + exhaustive/differential correspondence',
  text='Proof: a loop-faithful Lean model of internal/difflib and of the NO_COLOR report; GoSnaps.Props.C13Difflib and C13 prove for all line sequences (no length bound, popularity purge included) that opcodes tile both texts, mark equal only identical ranges, replay a into b, that hunks contain every change exactly once, that the report is empty iff the texts are identical, that header counts equal the rows, that - rows come from the stored and + rows from the received text, that the residues agree and that no ESC byte is added. The model is compared with the real package exactly (quick: 13 000 sampled pairs over a 3-letter alphabet up to length 5 plus long inputs; thorough: all 132 496 pairs) and the real reports are parsed and checked.',
  note='Colour mode: only emptiness is checked on the implementation; diffmatchpatch is a parameter.'),
 'C19': dict(
  technique='Lean 4 proof (file = value after a write, silent replay for every byte string) + differential correspondence + byte-equality oracle',
  text='Proof: GoSnaps.Props.C19 proves on the model that whenever a standalone call writes, the file holds exactly the snapshot text, that other files are untouched, and that a file holding the value replays with no event and no write for every byte sequence (no CR or shadow hypothesis); the real code is run with arbitrary bytes (CR, terminator-like, header-like, 300 KB lines), 1-12 calls per test, repeated executions and update mode, file bytes are compared with the value and with the model.',
  note='`%` in the test name or path used to be interpreted by Sprintf (defect D12, repaired in /repo: d338765); such names are ordinary generated inputs now.'),
 'C20': dict(
  technique='Lean 4 proof (exhaustive case analysis: exactly one outcome and one counter per call) + concurrency counters theorem + differential correspondence + summary parser',
  text='Proof: GoSnaps.Props.C20 proves by case analysis over the step functions shared by all five entry points that every covered call yields exactly one of passed/added/updated/failed, signalled as nothing, one added log, one updated log or one error, and moves exactly the matching counter by one; Props.C06 (counters_sum) lifts the counter identity to every schedule of parallel tests. On the implementation the outcomes are tallied from the mock test log and compared with the counters and with the numbers parsed from the printed summary, for every Clean mode.',
  note='MatchSnapshot(t) without values logs a warning and has no outcome (stated boundary).'),
 'C06': dict(
  technique='Lean 4 proof (serialisability of every schedule, any number of threads, under the lock discipline read from the source; byte-level refinement) + exhaustive schedule exploration of the yieldified real code + race detector',
  text='Proof: a Lean model of concurrent Match* calls at the granularity read / append / lock+read / truncate / write, with the lock kind of each function regenerated from the source (source_is_all_locked is decided on those facts); GoSnaps.Props.C06 proves for every number of threads and every schedule that outcomes equal the serial ones and the final file holds exactly one entry per addressed slot with the serial value (none lost, duplicated or stale), with concrete lost-update / stale-overwrite / duplicate witnesses when any one of the three locks is missing; Props.C06Refine transports this to the byte-level file through the framing theorems. The real code is rebuilt with yield points inserted by an AST rewriter and a scheduler-aware mutex, and EVERY interleaving of 2 threads x 1 call over all pairs of {create, match, mismatch, update, forbidden} (thorough: 2x2 calls, 3 threads) is executed and compared, schedule by schedule, with the model and with the serial semantics; a -race stress of Match*, Skip* and one shared Config runs under the Go race detector.',
  note='Partial: atomicity of a single os call (O_APPEND write, truncate), torn reads below one call, and the race detector\'s completeness are runtime behaviour outside the model; threads are assumed to run distinct tests (disjoint slots).'),
 'C08': dict(
  technique='Lean 4 proof (skip protection is exactly the test and its descendants; protected entries are collected, never reported) + differential correspondence with go test -run semantics as oracle',
  text='Proof: GoSnaps.Props.C08 proves on the model of testSkipped/exScan that a snaps.Skip protects exactly the test itself and names extending it by "/", never siblings sharing a prefix, and that a protected entry is never reported and survives every rewrite. The real Clean is run on generated programs (subsets skipped through the wrappers, -run patterns: names, substrings, alternations, multi-level, anchors, classes) with the selection semantics of testing/match.go re-implemented as oracle for "did not run"; regexp and go/parser results are oracle tables for the model.',
  note='Partial: regexp.MatchString and go/parser are parameters. Known findings D6 (skip-only files deleted), D7 (pattern applied to the whole id), D8 (custom-named/standalone files of filtered tests deleted).'),
 'C11': dict(
  technique='Lean 4 proof (location = formula of the property over exact filepath Clean/Join/Dir/Base/Ext) + exhaustive white-box comparison + generated Go programs run with the real go test',
  text='Proof: GoSnaps.Props.C11 states the location as a function of (Config, calling test file, test name, API) only and proves the filename and directory formulas on the Lean model of path/filepath; the model and the formula are compared with the real snapshotPath on all Dir x Filename x Ext x API x name combinations; generated modules (direct calls, helpers in non-test files, closures, goroutines, subtests, nested helpers, sub-packages up to three levels, Config options, -trimpath on/off, test binary executed from another working directory) are run with the real go test and the files found are compared with the formula.',
  note='Partial: the runtime stack walk (baseCaller), inlining and -trimpath detection are exercised, not proved; with -trimpath the location is relative to the working directory (documented limitation). `%` in names: repaired (D12).'),
 'C12': dict(
  technique='Lean 4 proof obligation on extracted fact (no write through *Config anywhere in the source) + model invariance of the Config store + exhaustive sequences shared-vs-fresh Config + race detector',
  text='Proof: tools/extract lists every assignment through a *Config parameter/receiver or to defaultConfig outside the option constructors; GoSnaps.Props.C12 requires that list to be empty (decide) and proves that no step of the model changes the Config store. All ordered pairs and triples of the five entry points x 4 option sets (plus random sequences) are executed through one shared Config and through a fresh Config per call and compared (events, written paths, final directory); the concurrent stress runs under the race detector.',
  note='The extractor is syntactic (go/ast): a write through an alias of the pointer would escape it; the behavioural comparison covers that case.'),
 'C14': dict(
  technique='Lean 4 proof of the go-snaps glue relative to an explicit pretty-printer contract, and of that contract for an executable Lean model of gjson.Valid / tidwall/pretty tied to the libraries by differential correspondence + metamorphic search over presentations',
  text='Proof (of the glue): GoSnaps.Props.C14 proves, relative to an explicit PrettySpec contract of tidwall/pretty (whitespace invariance, member-order invariance when sorting, losslessness), that the three input forms, whitespace variants and (default options, read from the source) member-order variants store identical text, that MatchStandaloneJSON stores the same text, and that invalid input writes nothing. On the implementation: documents from a random AST x presentations (whitespace incl. \\r, member order) x forms x options; stored bytes identical within a class, stored text parses to the input value, malformed stream gives one failure and an unchanged directory; the whole pipeline result is compared with the model.',
  note='The pretty printer and gjson validation are no longer bare parameters: they are modelled in Lean (Json.lean) and the model is compared with the real libraries on generated and malformed documents; what remains assumed is that correspondence (sampling) and json.Marshal for Go values. Member-order invariance needs pairwise different keys after unescaping (false of the library otherwise: checked witness). String-escape presentation (\\u00e9 vs the character) is not whitespace and is out of scope.'),
 'C15': dict(
  technique='Lean 4 proof of the matcher fold (left to right, failing matcher skipped, errors aggregated) + aliasing facts from the source + ordered structural search on the real matchers',
  text='Proof (of the glue): GoSnaps.Props.C15 models applyJSONMatchers/applyYAMLMatchers as a fold and proves left-to-right composition, that a failing matcher\'s output never becomes the document and that errors are aggregated; whether the caller\'s bytes can be written is decided from facts read from the source (validateJSON aliases its []byte argument; sjson ReplaceInPlace). The real match.Any/Type/Custom are applied to generated documents (keys needing escapes, array elements, nested; placeholders shorter, longer, needing escapes, non-string) and an ordered flattening of input and output is compared: everything outside the target identical in value and position, the target equal to the placeholder, caller\'s bytes untouched; JSON and YAML.',
  note='Partial: gjson/sjson/go-yaml path semantics are parameters (lens contract), validated by the search.'),
 'C16': dict(
  technique='Lean 4 proof relative to a lens contract (masked paths irrelevant, unmasked paths relevant) + two-run metamorphic search',
  text='Proof (relative to LensSpec): GoSnaps.Props.C16 proves that two documents agreeing outside the masked paths produce the same masked document hence the same snapshot and pass against each other, and that a difference at an unmasked path survives masking and is reported (with C13.report_empty_iff). On the implementation: variant A is recorded, variant B (masked and/or unmasked leaves changed) is replayed through MatchJSON/MatchYAML/MatchStandaloneJSON; pass iff only masked leaves changed.',
  note='Partial: lens laws of sjson/go-yaml assumed; D13 (fixed) was a violation of exactly this.'),
 'C17': dict(
  technique='Lean 4 proof (unconditional: a failing pipeline yields exactly one failure naming every error, writes nothing in every mode, consumes the ordinal) + differential correspondence + failing-matcher search',
  text='Proof: GoSnaps.Props.C17 proves on the step functions that a validation or matcher failure produces exactly one failure whose message contains match.<Matcher>("<path>") - <reason> for every error in order (through the format string read from the source), leaves the file system untouched in every mode, and bumps the registry exactly like a successful call so later calls keep their slots. The real code is run with all mixes of satisfiable and failing matchers (missing path, wrong type, callback error, ErrOnMissingPath(false)) in every order and mode for JSON, YAML and standalone JSON, with the failing set computed by an independent simulation.',
  note='Matcher verdicts themselves come from the real match package (oracle lines for the model).'),
 'C18': dict(
  technique='Lean 4 proof of the glue (stored body = escape(document), replay, invalid writes nothing, newline flag) + differential correspondence + verbatim search',
  text='Proof (of the glue): GoSnaps.Props.C18 proves that for string/byte input without matchers the stored body is escape(document) (identity except whole `---` lines), that it replays, that invalid input writes nothing, and that MarshalFile is asked to append a newline iff the input ended with one. On the implementation: documents with comments, key orders, multi-document streams, block scalars containing `---`, header-looking flow sequences, with and without final newline; stored bytes compared with escape(input); Go values marshalled three times must store identically.',
  note='Partial: go-yaml (validity, marshalling determinism, AST printing) is a parameter, exercised not proved. A flow sequence equal to a live header at column 0 is finding D9.'),
}

# what the translator ties by proof, per property (appended to the level text; DESIGN.md §0.6)
TIES = {
 'C01': 'getPrevSnapshot, addNewSnapshot, the registries, the five Match* flows and the test cleanups are TRANSLITERATED from the Go source on every run and proved equal to / a simulation of the model (Tie/Snapshot, SnapshotIO, Registry, Flows); Tie/EndToEnd restates the record/replay history theorem about goRun, the fold of the transliterated flows.',
 'C02': 'prettyDiff, buildDiffReport, getUnifiedDiff and the colour helpers are transliterated and proved equal to the model\'s report (Tie/DiffIO: NO_COLOR report = model; the colour-mode report of two different texts is never empty, whatever diffmatchpatch answers); the mismatch history theorem is restated about the transliterated flows (Tie/EndToEnd).',
 'C03': 'syncRegistry / syncStandaloneRegistry methods are transliterated and proved a simulation of the model\'s flat registries (Tie/Registry: getTestID, reset, isolation, no panic from a reachable state).',
 'C04': 'updateSnapshot, removeSnapshot, overwriteFile are transliterated with a failure oracle for every file-system call and proved equal to the model\'s update under IOFail.never, with closed decision trees for every failure (Tie/SnapshotIO); the update history theorem is restated about the transliterated flows (Tie/EndToEnd).',
 'C05': 'besides the mode gates, the flows, the file functions and Clean are transliterated: Tie/Flows proves for every failure oracle that a call whose gates are closed leaves St.fs unchanged; Tie/CleanTopIO proves Clean_ci_readonly and Clean_no_update_no_removal on the transliteration.',
 'C06': 'the lock kind of every file function is read from the source; the registries\' methods are transliterated (Tie/Registry), events.register / syncSlice.append are tied as source text (prims.json).',
 'C07': 'occurrences, examineSnaps, examineFiles, isFileSkipped, Clean are transliterated and proved equal to the model (Tie/CleanIO, Tie/CleanTopIO1-3, CleanTopIO); Tie/EndToEndClean composes them with the flow ties: for states REACHED by a history of the transliterated Match* flows (registries, counters and file as the flows left them, any mix of modes) every entry in an addressed slot survives the transliterated Clean with its body and is not listed obsolete (go_matched_survive_clean, go_addressed_survive_clean).',
 'C08': 'testSkipped, isFileSkipped, trackSkip and the exported Skip/Skipf/SkipNow wrappers are transliterated and tied (Tie/Skip, CleanTopIO1: the test is recorded before testing takes over).',
 'C09': 'examineFiles, examineSnaps, Clean are transliterated; Tie/CleanTopIO proves on the transliteration that nothing is removed outside the deleting modes and that only reported paths are removed; Tie/EndToEndClean lifts this to states reached by a history of the transliterated flows, for every failure oracle (go_no_update_no_removal), and shows that a sort-only Clean leaves a permutation of the entries (go_no_update_no_loss).',
 'C10': 'examineSnaps (scan, rewrite, sort call) and getTestID are transliterated and proved equal to the model\'s exScan / rewrite (Tie/CleanIO, Tie/TestID); Tie/EndToEndClean: after a history of the transliterated flows a second transliterated Clean leaves the file system exactly as the first left it (go_second_clean_changes_nothing; modes without deletion).',
 'C11': 'constructFilename, snapshotPath, baseCaller (the stack walk, for any sufficient fuel) and every option constructor / exported wrapper are transliterated and tied (Tie/Path, Tie/Caller, Tie/Wrappers).',
 'C12': 'the option constructors, WithConfig (a fold) and the wrappers are transliterated: Tie/Wrappers proves which Config each entry point uses; getPrettyJSONOptions builds a fresh options value (Tie/Pipeline).',
 'C13': 'the report functions of snaps/diff.go and internal/colors are transliterated and tied (Tie/Diff, Tie/DiffIO); internal/difflib itself is a hand-written Lean port with its own proofs and exhaustive correspondence.',
 'C14': 'tier B: lean/GoSnaps/Json.lean is an executable MODEL of gjson.Valid and tidwall/pretty (all of Width / Indent / SortKeys) compared byte for byte with the libraries (suite json.model); Props/C14Json proves white-space and member-order invariance, losslessness, idempotence, no terminator line, validator = parser, and model_prettySpec (the PrettySpec contract holds of the model); validateJSON (the type switch on the dynamic type), getPrettyJSONOptions and takeJSONSnapshot are transliterated and tied (Tie/Pipeline: = C14.validateJSON, = trimNL . pretty).',
 'C15': 'applyJSONMatchers / applyYAMLMatchers and the thirteen methods of package match are transliterated relative to gjson/sjson/go-yaml as parameters and proved to be the model\'s folds (Tie/Matchers).',
 'C16': 'the matcher methods are transliterated and tied to C16.mask / maskWith under the lens hypotheses (Tie/Matchers: pipeline_masks).',
 'C17': 'the flows up to handleError, the error-message loop and the registry bump are transliterated: Tie/Flows proves matcher_error one failure / no write / ordinal consumed on the transliteration for every failure oracle.',
 'C18': 'matchYAML, takeYAMLSnapshot, escape and validateYAML are transliterated: Tie/Pipeline proves a string / []byte document that decodes is handed on byte for byte; Tie/Flows the stored body.',
 'C19': 'matchStandaloneSnapshot / matchStandaloneJSON, upsertStandaloneSnapshot, getPrevStandaloneSnapshot and the standalone registry are transliterated and tied (Tie/SnapshotIO, Tie/Registry, Tie/Flows, Tie/Wrappers).',
 'C20': 'all five flows and handleError are transliterated: Tie/Flows proves exactly one outcome and one counter per call for every failure oracle; summary, printEvent and Clean are transliterated and tied (Tie/CleanTopIO: summary_tied, Clean_prints_once).',
}

def main():
    checks, na = [], []
    for p in props:
        pid = p['id']
        c = CLAIMS.get(pid)
        if not c or not os.path.exists('%s/vcheck/props/%s.py' % (ROOT, pid)):
            na.append(dict(property_id=pid, reason='check under construction in this session (Lean model exists; property-specific theorems/oracles not yet registered)'))
            continue
        checks.append(dict(
            property_id=pid,
            quick_cmd='./check %s quick' % pid,
            thorough_cmd='./check %s thorough' % pid,
            evidence_file='/verif/evidence/%s.json' % pid,
            replay_cmd_template='./check replay {path}',
            engine='lean-proofs+correspondence',
            level_claimed=dict(category='proof', text=c['text'] + (' Tie by proof: ' + TIES[pid] if pid in TIES else ''), design_ref='DESIGN.md §0.6, §7 ' + pid),
            level_note=c['note'],
            technique=c['technique'] + ('; Go functions transliterated on every run and tied to the model by proof' if pid in TIES else '')))
    m = dict(version=1, setup_cmd='cd /verif && ./setup.sh',
             hooks=dict(guard='verif',
                        enable='go test -c -tags verif -overlay <overlay.json generated by vcheck/core.py> ./snaps  (harness files /verif/harness/snaps/*.go are injected at build time as /repo/snaps/zz_verif_*_test.go; nothing is committed to /repo)',
                        baseline_off_cmd='cd /repo && GOFLAGS=-mod=mod GOPROXY=off GOSUMDB=off GOTOOLCHAIN=local go test -vet=off -count=1 ./...',
                        source_commits=[], add_only=True),
             engines=[
                 dict(name='lean-proofs', path='/verif/lean', serves_properties=[c['property_id'] for c in checks], kind_free_text='Lean 4.33 model + theorems (core only), native model driver gosnaps-model'),
                 dict(name='extract', path='/verif/tools/extract', serves_properties=[c['property_id'] for c in checks], kind_free_text='go/ast fact extractor and Go-to-Lean translator (90 functions transliterated statement by statement) regenerating lean/GoSnaps/Generated on every run'),
                 dict(name='corr-harness', path='/verif/harness', serves_properties=[c['property_id'] for c in checks], kind_free_text='differential harness injected with go test -overlay, one-op-per-line protocol shared with the Lean driver'),
                 dict(name='orchestrator', path='/verif/vcheck', serves_properties=[c['property_id'] for c in checks], kind_free_text='python3 stdlib: generators, comparison, shrinking, known findings, evidence'),
             ],
             checks=checks, not_applicable=na,
             notes='Fix commits in /repo (unguarded, "fix:"): see /verif/KNOWN_FINDINGS.txt. No hook commits: instrumentation is injected by overlay only.')
    json.dump(m, open(ROOT + '/MANIFEST.json', 'w'), indent=1)
    print('claimed:', [c['property_id'] for c in checks])

main()
