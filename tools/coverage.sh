#!/bin/bash
# coverage.sh [tier] : run every check with the harness binaries built with -cover and report the
# statements of go-snaps (non-test files) that no correspondence run executed.
# A diagnostic for the authors of the checks, not a check itself.
cd "$(dirname "$0")/.."
TIER="${1:-quick}"
export VERIF_COVER="$(pwd)/.build/cover"
export VERIF_REPO="${VERIF_REPO:-/repo}"
rm -rf "$VERIF_COVER"; mkdir -p "$VERIF_COVER"
for i in $(seq -w 1 20); do
  VERIF_EXPERIMENT=1 ./check C$i "$TIER" > "$VERIF_COVER/C$i.log" 2>&1 || echo "C$i exited non-zero (see $VERIF_COVER/C$i.log)"
done
python3 tools/covmerge.py "$VERIF_COVER"
