#!/bin/bash
# build_harness.sh <outbin> : build the snaps test binary with the harness injected via -overlay
set -e
export GOFLAGS=-mod=mod GOPROXY=off GOSUMDB=off GOTOOLCHAIN=local
OUT="$1"; TAGS="${2:-verif}"
OV="$(dirname "$OUT")/overlay.json"
python3 - "$OV" <<'PY'
import json,sys,glob,os
rep={}
for f in glob.glob('/verif/harness/snaps/*.go'):
    rep['/repo/snaps/zz_verif_'+os.path.basename(f)]=f
for f in glob.glob('/verif/harness/snaps_opt/*_real.go'):
    rep['/repo/snaps/zz_verif_hook_'+os.path.basename(f)[:-8]+'_test.go']=f
json.dump({"Replace":rep},open(sys.argv[1],'w'))
PY
cd /repo && go test -c -vet=off -tags "$TAGS" -overlay "$OV" -o "$OUT" ./snaps
