#!/usr/bin/env python3
"""Offline builder of vcheck/data/line_collisions.json: pairs of DISTINCT short lines that are "equal"
under a shortcut a developer might take when comparing or indexing lines - a non-cryptographic
32-bit hash (found by birthday search), the length, a fixed-size prefix/suffix, case folding,
whitespace trimming, Unicode normalisation, rune decoding.

    python3 tools/collide.py            # rewrites vcheck/data/line_collisions.json (deterministic)
    python3 tools/collide.py --verify   # re-checks every pair of the committed corpus

The checks only READ the committed corpus (vcheck/collide.py); nothing is searched at run time.
Standard library only.

Each entry: cls (name of the shortcut), a / b (hex), robust:
  whole  - only the two lines as given collide
  suffix - a+s and b+s collide for every s (sequential hash whose state is the hash value)
  both   - p+a+s and p+b+s collide for every p, s (equal-length pairs of polynomial / linear hashes)
"""
import json, os, random, sys, unicodedata, zlib

M32 = 0xFFFFFFFF
HERE = os.path.dirname(os.path.abspath(__file__))
OUT = os.path.join(os.path.dirname(HERE), 'vcheck', 'data', 'line_collisions.json')


# ---------------------------------------------------------------- the hashes

def fnv1_32(b):
    h = 0x811C9DC5
    for c in b:
        h = ((h * 0x01000193) & M32) ^ c
    return h


def fnv1a_32(b):
    h = 0x811C9DC5
    for c in b:
        h = ((h ^ c) * 0x01000193) & M32
    return h


def fnv1a_64_lo32(b):
    h = 0xCBF29CE484222325
    for c in b:
        h = ((h ^ c) * 0x100000001B3) & 0xFFFFFFFFFFFFFFFF
    return h & M32


def crc32_ieee(b):
    return zlib.crc32(b) & M32


def _crc_table(poly):
    t = []
    for i in range(256):
        c = i
        for _ in range(8):
            c = (c >> 1) ^ poly if c & 1 else c >> 1
        t.append(c)
    return t


_CRC32C = _crc_table(0x82F63B78)


def crc32c(b):
    c = M32
    for x in b:
        c = _CRC32C[(c ^ x) & 0xFF] ^ (c >> 8)
    return c ^ M32


def adler32(b):
    return zlib.adler32(b) & M32


def djb2(b):
    h = 5381
    for c in b:
        h = (h * 33 + c) & M32
    return h


def djb2a(b):
    h = 5381
    for c in b:
        h = ((h * 33) & M32) ^ c
    return h


def sdbm(b):
    h = 0
    for c in b:
        h = (c + (h << 6) + (h << 16) - h) & M32
    return h


def java31(b):
    h = 0
    for c in b:
        h = (31 * h + c) & M32
    return h


def jenkins_oaat(b):
    h = 0
    for c in b:
        h = (h + c) & M32
        h = (h + (h << 10)) & M32
        h ^= h >> 6
    h = (h + (h << 3)) & M32
    h ^= h >> 11
    h = (h + (h << 15)) & M32
    return h


def murmur3_32(b, seed=0):
    c1, c2 = 0xCC9E2D51, 0x1B873593
    h = seed
    n = len(b) // 4
    for i in range(n):
        k = int.from_bytes(b[4 * i:4 * i + 4], 'little')
        k = (k * c1) & M32
        k = ((k << 15) | (k >> 17)) & M32
        k = (k * c2) & M32
        h ^= k
        h = ((h << 13) | (h >> 19)) & M32
        h = (h * 5 + 0xE6546B64) & M32
    tail = b[4 * n:]
    k = 0
    if len(tail) >= 3:
        k ^= tail[2] << 16
    if len(tail) >= 2:
        k ^= tail[1] << 8
    if len(tail) >= 1:
        k ^= tail[0]
        k = (k * c1) & M32
        k = ((k << 15) | (k >> 17)) & M32
        k = (k * c2) & M32
        h ^= k
    h ^= len(b)
    h ^= h >> 16
    h = (h * 0x85EBCA6B) & M32
    h ^= h >> 13
    h = (h * 0xC2B2AE35) & M32
    h ^= h >> 16
    return h


def bytesum(b):
    return sum(b) & M32


def xor8(b):
    h = 0
    for c in b:
        h ^= c
    return h


# name -> (function, robustness of equal-length pairs, robustness of other pairs, how many to keep)
HASHES = {
    'fnv1-32': (fnv1_32, 'suffix', 'suffix', 8),
    'fnv1a-32': (fnv1a_32, 'suffix', 'suffix', 10),
    'fnv1a-64-low32': (fnv1a_64_lo32, 'whole', 'whole', 4),
    'crc32-ieee': (crc32_ieee, 'both', 'suffix', 8),
    'crc32c': (crc32c, 'both', 'suffix', 6),
    'adler32': (adler32, 'both', 'suffix', 8),
    'djb2': (djb2, 'both', 'suffix', 8),
    'djb2a': (djb2a, 'suffix', 'suffix', 6),
    'sdbm': (sdbm, 'both', 'suffix', 6),
    'java31': (java31, 'both', 'suffix', 8),
    'jenkins-oaat': (jenkins_oaat, 'suffix', 'suffix', 6),
    'murmur3-32': (murmur3_32, 'whole', 'whole', 6),
    'bytesum': (bytesum, 'both', 'both', 6),
    'xor8': (xor8, 'both', 'both', 4),
}

CONS, VOW = 'bcdfghjklmnprstvwz', 'aeiou'


def words(rnd, n):
    """pronounceable lowercase words of 4-9 letters (deterministic for a given seed)"""
    seen = set()
    while len(seen) < n:
        k = rnd.randint(2, 4)
        w = ''.join(rnd.choice(CONS) + rnd.choice(VOW) for _ in range(k))
        if rnd.random() < 0.5:
            w += rnd.choice(CONS)
        seen.add(w)
    out = sorted(seen)
    rnd.shuffle(out)
    return [w.encode() for w in out]


def birthday(fn, cands, keep, prefer_equal_len):
    table, pairs = {}, []
    for w in cands:
        h = fn(w)
        o = table.get(h)
        if o is None:
            table[h] = w
        elif o != w:
            pairs.append((o, w))
    pairs.sort(key=lambda p: (0 if (len(p[0]) == len(p[1])) == prefer_equal_len else 1, len(p[0]) + len(p[1]), p))
    return pairs[:keep]


def search():
    rnd = random.Random(20260930)
    cands = words(rnd, 700000)
    entries = []
    for name, (fn, rob_eq, rob_ne, keep) in HASHES.items():
        weak = name in ('bytesum', 'xor8', 'adler32')
        pool = cands[:20000] if weak else cands
        found = birthday(fn, pool, keep * 2, rob_eq == 'both')
        n = 0
        for a, b in found:
            rob = rob_eq if len(a) == len(b) else rob_ne
            e = dict(cls=name, a=a.hex(), b=b.hex(), robust=rob)
            if verify_entry(e) is None:
                entries.append(e)
                n += 1
            elif rob != 'whole':
                e['robust'] = 'suffix' if rob == 'both' else 'whole'
                if verify_entry(e) is None:
                    entries.append(e)
                    n += 1
            if n >= keep:
                break
        print('%-16s %d pairs (of %d found in %d candidates)' % (name, n, len(found), len(pool)), file=sys.stderr)
    return entries


# ---------------------------------------------------------------- shortcuts that need no search

def fold(s):
    return unicodedata.normalize('NFKC', s.casefold())


def equivalences():
    E = []

    def add(cls, a, b, robust='both'):
        a = a.encode() if isinstance(a, str) else a
        b = b.encode() if isinstance(b, str) else b
        assert a != b and b'\n' not in a + b
        E.append(dict(cls=cls, a=a.hex(), b=b.hex(), robust=robust))
    # length only (a map keyed by len, or "same size => unchanged")
    for a, b in [('alpha', 'omega'), ('"id": 17,', '"id": 71,'), ('x', 'y'), ('status: ok    ', 'status: failed'), ('0', '1')]:
        add('length', a, b, 'whole')
    # only the first N bytes looked at (fixed-size key, truncated buffer) - and only the last N
    for n in (8, 16, 32, 64):
        head = ('request-header-field-%02d/' % n * 8)[:n]
        add('prefix%d' % n, head + 'A', head + 'B', 'whole')
        add('prefix%d' % n, head, head + ' and more', 'whole')
        add('prefix%d' % n, head + 'tail one', head + 'a different and longer tail', 'whole')
        add('suffix%d' % n, 'A' + head, 'B' + head, 'whole')
        add('suffix%d' % n, head, 'more and ' + head, 'whole')
    # case-insensitive comparison
    for a in ['Content-Type: text/plain', 'TRUE', 'Name: Alice', 'stra\u00dfe', '\u212a elvin', '\u0130stanbul', '\u00c9COLE', 'MiXeD cAsE']:
        b = a.casefold() if a.casefold() != a else a.upper()
        add('casefold', a, b)
        if a.swapcase() not in (a, b) and fold(a.swapcase()) == fold(a):
            add('casefold', a, a.swapcase())
    # whitespace-insensitive comparison (TrimSpace, Fields, collapsing runs); tabs are left out on purpose:
    # the value formatter of go-snaps (kr/pretty) rewrites them
    for a, b in [('value', 'value '), ('value', ' value'), ('value ', 'value   '), ('key: value', 'key:  value'), ('', ' '), (' ', '   '),
                 ('a b', 'a\u00a0b'), ('end', 'end\u3000'), ('- item', '-  item'), ('  indented', '    indented')]:
        add('whitespace', a, b, 'whole')
    # Unicode normalisation (NFC/NFD, compatibility forms) and rune decoding of invalid UTF-8
    for s in ['caf\u00e9', '\u00c5ngstr\u00f6m', 'na\u00efve r\u00e9sum\u00e9', '\uac00\ub098', '\u1e9b\u0323']:
        add('unicode-normalisation', unicodedata.normalize('NFC', s), unicodedata.normalize('NFD', s))
    for a, b in [('\u212b', '\u00c5'), ('\ufb01le', 'file'), ('\uff21\uff22\uff23', 'ABC'), ('x\u00b2', 'x2'), ('\u2126', '\u03a9')]:
        add('unicode-normalisation', a, b)
    for a, b in [(b'caf\xff', b'caf\xfe'), (b'\x80abc', b'\xbfabc'), (b'a\xc3(', b'a\xe2('), (b'bad \xf0\x9f\x98 end', b'bad \xf0\x9f end'),
                 (b'nul\x00byte', b'nulbyte'), (b'bom \xef\xbb\xbfhere', b'bom here')]:
        add('rune-decoding', a, b)
    return E


# ---------------------------------------------------------------- verification

def same_under(cls, a, b):
    if cls in HASHES:
        f = HASHES[cls][0]
        return f(a) == f(b)
    if cls == 'length':
        return len(a) == len(b)
    if cls.startswith('prefix'):
        n = int(cls[6:])
        return a[:n] == b[:n]
    if cls.startswith('suffix'):
        n = int(cls[6:])
        return a[-n:] == b[-n:]
    if cls == 'casefold':
        return fold(a.decode()) == fold(b.decode())
    if cls == 'whitespace':
        return a.decode().split() == b.decode().split()
    if cls == 'unicode-normalisation':
        return unicodedata.normalize('NFKC', a.decode()) == unicodedata.normalize('NFKC', b.decode())
    if cls == 'rune-decoding':
        strip = lambda x: x.decode('utf-8', 'replace').replace('\x00', '').replace('\ufeff', '')
        return strip(a) == strip(b)
    return False


def verify_entry(e):
    a, b, cls, rob = bytes.fromhex(e['a']), bytes.fromhex(e['b']), e['cls'], e['robust']
    if a == b:
        return 'equal lines'
    if b'\n' in a + b:
        return 'newline inside a line'
    if not same_under(cls, a, b):
        return 'the two lines are not equal under ' + cls
    if cls in HASHES:
        for p, s in ((b'', b': yes'), (b'', b' = {"k": [1, 2]},'), (b'  "key": "', b'",'), (b'- ', b'')):
            if rob == 'whole' or (rob == 'suffix' and p):
                continue
            if not same_under(cls, p + a + s, p + b + s):
                return 'not robust (%s) under %s with %r/%r' % (rob, cls, p, s)
    return None


def main():
    if '--verify' in sys.argv:
        es = json.load(open(OUT))['pairs']
        bad = [(e, m) for e in es for m in [verify_entry(e)] if m]
        for e, m in bad:
            print('BAD', e, m)
        print('%d pairs, %d bad' % (len(es), len(bad)))
        sys.exit(1 if bad else 0)
    es = search() + equivalences()
    bad = [(e, verify_entry(e)) for e in es if verify_entry(e)]
    assert not bad, bad
    os.makedirs(os.path.dirname(OUT), exist_ok=True)
    with open(OUT, 'w') as f:
        json.dump(dict(note='generated by tools/collide.py (birthday search + fixed equivalence classes); committed, read-only at check time',
                       pairs=es), f, indent=0, sort_keys=True)
        f.write('\n')
    print('wrote %s: %d pairs' % (OUT, len(es)), file=sys.stderr)


if __name__ == '__main__':
    main()
