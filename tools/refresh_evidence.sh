#!/bin/bash
# run every quick check on the unchanged tree (rewrites evidence/*.json); prints failures only
HERE="$(cd "$(dirname "$0")/.." && pwd)"; cd "$HERE"
for P in C01 C02 C03 C04 C05 C06 C07 C08 C09 C10 C11 C12 C13 C14 C15 C16 C17 C18 C19 C20; do
  ./check $P quick 2>&1 | grep "VIOLATION\|FAIL" | cut -c1-200
done
python3-vt - <<'PY'
import json,jsonschema,glob
bad=0
for f in sorted(glob.glob('evidence/*.json')):
    d=json.load(open(f)); jsonschema.validate(d, json.load(open('/root/.vp/EVIDENCE.schema.json')))
    c=d['coverage']
    if c['obligations']!=c['discharged'] or d.get('violations'): print('NOT CLEAN', f, c['obligations'], c['discharged'], d.get('violations')); bad+=1
print('evidence files:', len(glob.glob('evidence/*.json')), 'not clean:', bad)
PY
