#!/bin/bash
# seedsweep.sh <seed ids...>: run each seed against its own property's quick check; one summary line each
HERE="$(cd "$(dirname "$0")/.." && pwd)"
for s in "$@"; do
  P=${s%%-*}
  out=$(LINES_OUT=40 "$HERE/tools/tryseed.sh" $s $P 2>&1)
  v=$(echo "$out" | grep -c "^VIOLATION")
  wi=$(echo "$out" | grep "^VIOLATION" | grep -vc "no-failing-input-found")
  echo "$s: violations=$v with_input=$wi $(echo "$out" | grep "seed=" | tail -1 | cut -c1-60)"
done
