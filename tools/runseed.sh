#!/bin/bash
# runseed.sh <copy of /verif> <prop>...: confirm (tools/seedtest.py) both changes a sub-agent left in /tmp/mut/<prop>/out
# (mut1.diff, demo1_test.go, mut2.diff, demo2_test.go, notes.md) from a relocatable copy of /verif (rsync -a --exclude replays
# /verif/ <copy>/), run the property's quick check against each and store the confirmed ones under /verif/seeded/<prop>-<n+SEED_OFFSET>.
# The prompt a sub-agent gets is tools/seed_prompt_example.txt (property text, scratch worktree, ideas already used).
C=$1; shift
cd $C
for P in "$@"; do
for n in 1 2; do
  SEED_OFFSET=16 SEEDED_DIR=/verif/seeded python3 tools/seedtest.py $P $n > /tmp/mut/$P/seedtest$n.log 2>&1
done
echo "$P done"
done
