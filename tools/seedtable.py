#!/usr/bin/env python3
"""seedtable.py <round> <sweep results file>...: markdown table of the seeded changes of one round
(seeded/<id>/meta.json: change, needs_to_manifest) with the result of the sweep lines
`<id>: violations=N with_input=M ...` (tools/seedsweep.sh); later files override earlier ones."""
import json, os, re, sys
HERE = os.path.dirname(os.path.dirname(os.path.abspath(__file__)))
rnd = int(sys.argv[1])
res = {}
for f in sys.argv[2:]:
    for l in open(f):
        m = re.match(r'(C\d\d-\d+): violations=(\d+) with_input=(\d+)', l)
        if m:
            res[m.group(1)] = (int(m.group(2)), int(m.group(3)))
print('| id | change | needs | caught by |')
print('|---|---|---|---|')
for d in sorted(os.listdir(HERE + '/seeded')):
    mp = HERE + '/seeded/' + d + '/meta.json'
    if not os.path.exists(mp):
        continue
    m = json.load(open(mp))
    if m.get('round') != rnd:
        continue
    v, wi = res.get(d, (None, None))
    P = d.split('-')[0]
    if v is None:
        how = '(not swept)'
    elif v == 0:
        how = '**missed**'
    elif wi > 0:
        how = '`./check %s quick` — property oracle / correspondence on the implementation (failing input as replay)' % P
    else:
        how = '`./check %s quick` — broken tie or proof obligation only (no-failing-input-found)' % P
    clean = lambda s: re.sub(r'\s+', ' ', s).replace('|', '\\|').strip()
    print('| %s | %s | %s | %s |' % (d, clean(m.get('change', ''))[:260], clean(m.get('needs_to_manifest', ''))[:200], how))
