#!/usr/bin/env python3
"""tools/seedtest.py <prop> <n> [check-props...]: confirm a seeded change produced by a sub-agent
(/tmp/mut/<prop>/out/mut<n>.diff + demo<n>_test.go) in a fresh scratch worktree of /repo, run the
checks against it (VERIF_REPO), and store it under /verif/seeded/<prop>-<n>/."""
import json, os, re, shutil, subprocess, sys, time

HERE = os.path.dirname(os.path.dirname(os.path.abspath(__file__)))
SEEDED = os.environ.get('SEEDED_DIR', '/verif/seeded')
ENV = dict(os.environ, GOFLAGS='-mod=mod', GOPROXY='off', GOSUMDB='off', GOTOOLCHAIN='local')


def _limits():
    # a changed library (or its demonstration) may loop while writing: no process started here may create a file
    # larger than 4 GiB
    import resource
    resource.setrlimit(resource.RLIMIT_FSIZE, (4 << 30, 4 << 30))


def sh(cmd, cwd=None, env=None, timeout=1800):
    p = subprocess.run(cmd, shell=isinstance(cmd, str), cwd=cwd, env=env or ENV, stdout=subprocess.PIPE, stderr=subprocess.STDOUT, timeout=timeout, preexec_fn=_limits)
    return p.returncode, p.stdout.decode('utf-8', 'replace')


def main():
    prop, n = sys.argv[1], sys.argv[2]
    base = os.environ.get('SEED_BASE', '/tmp/mut')
    offset = int(os.environ.get('SEED_OFFSET', '0'))
    checks = sys.argv[3:] or [prop]
    src = '%s/%s/out' % (base, prop)
    diff = '%s/mut%s.diff' % (src, n)
    demo = '%s/demo%s_test.go' % (src, n)
    wt = '/tmp/seedwt_%s_%s' % (prop, n)
    outname = '%s-%d' % (prop, int(n) + int(os.environ.get('SEED_OFFSET', '0')))
    sh(['git', '-C', '/repo', 'worktree', 'remove', '--force', wt])
    rc, out = sh(['git', '-C', '/repo', 'worktree', 'add', '--detach', wt, 'HEAD'])
    assert rc == 0, out
    res = dict(property=prop, n=int(n), ran=[])
    try:
        pkg = re.search(r'^package\s+(\w+)', open(demo).read(), re.M).group(1)
        pkgdir = {'snaps': 'snaps', 'snaps_test': 'snaps', 'difflib': 'internal/difflib', 'difflib_test': 'internal/difflib',
                  'match': 'match', 'match_test': 'match', 'colors': 'internal/colors', 'yaml': 'match/internal/yaml'}[pkg]
        demo_dst = os.path.join(wt, pkgdir, 'zz_demo%s_test.go' % n)
        tname = re.search(r'func (TestDemo\w*)\(', open(demo).read()).group(1)
        run_demo = ['go', 'test', '-vet=off', '-count=1', '-run', '^%s$' % tname, './' + pkgdir]
        # 1. demo passes on the unchanged tree
        shutil.copy(demo, demo_dst)
        rc, out = sh(run_demo, cwd=wt)
        res['demo_passes_without'] = rc == 0
        res['ran'].append(' '.join(run_demo) + ' (unchanged tree) -> exit %d' % rc)
        os.remove(demo_dst)
        # 2. apply, build, suite passes
        rc, out = sh(['git', 'apply', diff], cwd=wt)
        res['applies'] = rc == 0
        if rc != 0:
            res['apply_error'] = out[-500:]
        rc, out = sh('go build ./... && go test -vet=off -count=1 ./...', cwd=wt)
        res['suite_passes_with'] = rc == 0
        res['ran'].append('go build ./... && go test -vet=off -count=1 ./... (changed tree) -> exit %d' % rc)
        if rc != 0:
            res['suite_output'] = out[-800:]
        sh('git checkout -- . && git clean -fdq -e out', cwd=wt)   # the examples package may have written snapshots
        sh(['git', 'apply', diff], cwd=wt)
        # 3. demo fails with the change
        shutil.copy(demo, demo_dst)
        rc, out = sh(run_demo, cwd=wt)
        res['demo_fails_with'] = rc != 0
        res['ran'].append(' '.join(run_demo) + ' (changed tree) -> exit %d' % rc)
        os.remove(demo_dst)
        res['confirmed'] = bool(res.get('applies') and res['demo_passes_without'] and res['suite_passes_with'] and res['demo_fails_with'])
        # 4. the checks
        res['checks'] = {}
        for c in checks:
            t0 = time.time()
            rc, out = sh([HERE + '/check', c, 'quick'], env=dict(ENV, VERIF_REPO=wt), timeout=3000)
            v = [l for l in out.splitlines() if l.startswith('VIOLATION')]
            res['checks'][c] = dict(exit=rc, violations=v[:4], with_input=any('no-failing-input-found' not in l for l in v), seconds=round(time.time() - t0, 1))
            res['ran'].append('VERIF_REPO=<scratch worktree with the change> ./check %s quick -> exit %d' % (c, rc))
    finally:
        sh(['git', '-C', '/repo', 'worktree', 'remove', '--force', wt])
        shutil.rmtree(wt, ignore_errors=True)
    # regenerate the Lean facts for the real tree again (the check above regenerated them from the scratch tree)
    sh([HERE + '/.build/extract', '/repo', HERE + '/lean/GoSnaps/Generated'])
    if res.get('confirmed'):
        dst = '%s/%s-%d' % (SEEDED, prop, int(n) + offset)
        os.makedirs(dst, exist_ok=True)
        shutil.copy(diff, dst + '/patch.diff')
        shutil.copy(demo, dst + '/demo_test.go')
        notes = open(src + '/notes.md').read() if os.path.exists(src + '/notes.md') else ''
        meta = dict(property=prop, breaks=prop, needs_to_manifest='see notes.md', what_i_ran=res['ran'],
                    confirmed=True, detected_by={c: r['exit'] != 0 for c, r in res['checks'].items()},
                    detected_with_failing_input={c: r['with_input'] for c, r in res['checks'].items()},
                    check_results=res['checks'])
        json.dump(meta, open(dst + '/meta.json', 'w'), indent=1)
        open(dst + '/notes.md', 'w').write(notes)
    print(json.dumps({k: v for k, v in res.items() if k != 'ran'}, indent=1)[:3000])


main()
