#!/usr/bin/env python3
"""merge Go cover profiles and print uncovered blocks per file"""
import sys, glob, collections, os
d = sys.argv[1]
blocks = collections.defaultdict(int)
stm = {}
for f in glob.glob(d + '/*.out'):
    for l in open(f):
        if l.startswith('mode:') or not l.strip():
            continue
        loc, n, c = l.rsplit(' ', 2)
        blocks[loc] += int(c)
        stm[loc] = int(n)
per = collections.defaultdict(lambda: [0, 0, []])
for loc, c in blocks.items():
    fn, rng = loc.rsplit(':', 1)
    if '/zz_verif_' in fn:
        continue
    per[fn][0] += stm[loc]
    if c:
        per[fn][1] += stm[loc]
    else:
        per[fn][2].append(rng)
tot = cov = 0
for fn in sorted(per):
    t, c, un = per[fn]
    tot += t; cov += c
    print('%-70s %4d/%4d %5.1f%%' % (fn, c, t, 100.0 * c / max(t, 1)))
    for r in sorted(un, key=lambda r: int(r.split('.')[0])):
        print('      uncovered', r)
print('TOTAL %d/%d statements = %.1f%%' % (cov, tot, 100.0 * cov / max(tot, 1)))
